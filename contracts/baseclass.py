"""Contracts for methods of numpoly.baseclass.ndpoly that are executed from their real source:

  __reduce__          (C13)  pickle/copy state = the polynomial's own attributes; round-trip lemma through the
                             contract of polynomial_from_attributes (same shape, dtype, value; which terms/names survive)
  __array_finalize__  (C13, C03)  views/copies made by numpy inherit keys, names, allocation, dtype
  __getitem__         (C09)  every coefficient column is indexed with the SAME index; rows and names are the polynomial's own
  astype              (C12)  every column cast with numpy's astype to the requested dtype, which is also the result dtype
  todict              (C19, C03)  one entry per term: exponent row -> coefficient column

Trusted around them: pickle/copy reproduce the argument tuple returned by __reduce__ (CPython, numpy's own
__reduce__ for the arrays inside); numpy calls __array_finalize__ for every view/copy it creates.
"""
from __future__ import annotations
import z3
from engine.contract import Contract, Case
from engine.sx import RaiseSig
from engine import values as V
from engine.values import U
from engine.logic import I, Idx, B, R, Shp, DT, inshape, mzero
from engine.polymodel import (Poly, Arr, ExpMat, NamesV, DTypeV, KeySeq, Region, SymDict, shape_axioms, mono_axioms,
                              as_dtype, IndexTok, ishape, imap, index_axioms)
from engine.sortmodel import meq, order_axioms
from engine.optmodel import ovbool, okey
from contracts.construct import keyok, eok_axioms, PolynomialFromAttributes
from contracts.align import extra_shape_axioms


def own_poly(ex, base="self", allocation=True):
    """A well-formed polynomial owned by the caller (the `self` of a method)."""
    ctx = ex.ctx
    for a in shape_axioms(ctx) + mono_axioms(ctx) + order_axioms(ctx) + eok_axioms() + index_axioms(ctx):
        ctx.assume(a)
    P = Poly(ctx, base, region=Region("caller", base))
    ctx.assume(P.wf(ctx))
    ctx.assume(ctx.forall_range(0, P.N, lambda t: keyok(P.row(t), P.D)))
    if allocation:
        # invariant of ndpoly.__new__ (allocation=None -> 2*len(keys); an explicit one must satisfy its precondition)
        P.allocation = ctx.int("allocation")
        ctx.assume(P.allocation >= 2 * P.N)
    return P


def own_attributes(fa_E, fa_C, P):
    return getattr(fa_E, "source", None) is P and getattr(fa_C, "source", (None,))[0] is P


class Reduce(Contract):
    name = "numpoly.ndpoly.__reduce__"
    relpath = "numpoly/baseclass.py"
    func = "__reduce__"
    cls = "ndpoly"
    properties = ("C13", "C15", "C17")
    assumptions = ("pickle / copy.copy / copy.deepcopy call __reduce__ (via __reduce_ex__) and call the returned "
                   "reconstructor on an equal copy of the returned argument tuple (CPython, numpy array pickling)",
                   "B1 (the abstract value depends only on the sparse coefficient map)")

    def cases(self):
        def make_env(ex):
            P = own_poly(ex)
            ex.P = P
            return {"self": P}

        def check(out):
            ex, ctx = out.ex, out.ctx
            P = ex.P
            ex.oblige("raises.nothing", z3.BoolVal(out.kind == "return"), "post")
            if out.kind != "return":
                return
            v = out.value
            ok = isinstance(v, tuple) and len(v) == 2 and isinstance(v[1], tuple)
            ex.oblige("post.returns_reconstructor_and_arguments", z3.BoolVal(ok), "post")
            if not ok:
                return
            fn, args = v
            ex.oblige("post.reconstructor_is_polynomial_from_attributes",
                      z3.BoolVal(isinstance(fn, V.FnRef) and fn.name == "numpoly.polynomial_from_attributes"), "post")
            okn = len(args) == 6
            ex.oblige("post.six_arguments", z3.BoolVal(okn), "post",
                      note="exponents, coefficients, names, dtype, allocation, retain_coefficients")
            if not okn:
                return
            E, C, names, dtype, alloc, rc = args
            ex.oblige("post.state_is_the_polynomial_own_exponents_and_coefficients", z3.BoolVal(own_attributes(E, C, P)), "post")
            ex.oblige("post.state_names", z3.BoolVal(isinstance(names, NamesV) and names.term is P.names), "post")
            okd = isinstance(dtype, DTypeV)
            ex.oblige("post.state_dtype", (dtype.term == P.dtype) if okd else z3.BoolVal(False), "post",
                      note="the coefficient dtype must travel with the state")
            ex.oblige("post.state_allocation", z3.BoolVal(alloc is P.allocation), "post")
            ex.oblige("post.state_drops_only_allzero_terms", z3.BoolVal(rc is False), "post")
            if not (own_attributes(E, C, P) and okd):
                return
            # ---- round-trip lemma: reconstructor(*args) under the contract of polynomial_from_attributes,
            #      under ANY option setting at load time (the option map is symbolic)
            try:
                r = PolynomialFromAttributes().apply(ex, list(args), {}, out.node)
            except RaiseSig as e:
                ex.oblige(f"roundtrip.reconstruction_cannot_fail[{e.info}]", z3.BoolVal(False), "post")
                return
            ex.oblige("roundtrip.shape", r.shape == P.shape, "post")
            ex.oblige("roundtrip.dtype", r.dtype == P.dtype, "post")
            ex.oblige("roundtrip.value", ctx.forall_idx(lambda i: r.val(i) == P.val(i), P.shape), "post")
            ex.oblige("roundtrip.width_and_names_when_names_are_retained", z3.Implies(
                r.D == P.D, z3.BoolVal(True)), "post")
            fa = r.from_attrs
            E2, C2 = fa["E2"], fa["C2"]
            rrc = getattr(E2, "rrc", None) or getattr(getattr(E2, "projected_from", (None,))[0], "rrc", None)
            ex.oblige("roundtrip.terms_pruned_by_rule_only", z3.BoolVal(rrc is not None), "post")
            if rrc is not None:
                M, sel, selidx, rule = rrc["M"], rrc["sel"], rrc["selidx"], rrc["rule"]
                Cs = V.as_seq(ex, C2)
                ex.oblige("roundtrip.every_kept_term_is_a_term_of_the_original", z3.Implies(M >= 1, ctx.forall_range(
                    0, M, lambda j: z3.And(0 <= sel(j), sel(j) < P.N, ctx.forall_idx(
                        lambda i: Cs.item(j).elem(i) == P.C(sel(j), i), P.shape)))), "post")
                ex.oblige("roundtrip.every_nonzero_or_constant_term_is_kept", ctx.forall_range(0, P.N, lambda t: z3.Implies(
                    z3.Or(z3.Not(ctx.forall_idx(lambda i: P.C(t, i) == 0, P.shape)), mzero(P.row(t), P.D)),
                    z3.And(0 <= selidx(t), selidx(t) < M, sel(selidx(t)) == t))), "post")
            from contracts.option import get_state
            st = get_state(ex)
            rn = ovbool(st.cur.val[okey("retain_names")])
            ex.oblige("roundtrip.names_kept_when_retain_names_is_on", z3.Implies(rn, r.names == P.names), "post",
                      note="under the default options the names come back unchanged")
        yield Case("", make_env, check)

    def apply(self, ex, args, kw, node):
        raise U("__reduce__ as a callee", node)


class RawSelf:
    """The `self` of __array_finalize__: a freshly made view whose Python attributes are being filled in."""

    def __init__(self):
        self.attrs = {}

    def sx_setattr(self, ex, attr, v, node):
        self.attrs[attr] = v

    def sx_getattr(self, ex, attr, node):
        if attr in self.attrs:
            return self.attrs[attr]
        raise U(f"attribute {attr} of a raw view", node)


class ArrayFinalize(Contract):
    name = "numpoly.ndpoly.__array_finalize__"
    relpath = "numpoly/baseclass.py"
    func = "__array_finalize__"
    cls = "ndpoly"
    properties = ("C13", "C03", "C09")
    assumptions = ("numpy calls __array_finalize__(new, parent) for every view / copy / ufunc result it creates from an "
                   "ndpoly (ndarray subclassing protocol)",)

    def cases(self):
        for label, none in (("from_parent", False), ("explicit_construction", True)):
            def make_env(ex, none=none):
                P = own_poly(ex, "obj")
                ex.P, ex.me = P, RawSelf()
                return {"self": ex.me, "obj": None if none else P}

            def check(out, none=none):
                ex = out.ex
                P, me = ex.P, ex.me
                ex.oblige("raises.nothing", z3.BoolVal(out.kind == "return"), "post")
                if out.kind != "return":
                    return
                if none:
                    ex.oblige("post.nothing_set_without_parent", z3.BoolVal(not me.attrs), "post")
                    return
                a = me.attrs
                ex.oblige("post.keys_inherited", z3.BoolVal(isinstance(a.get("keys"), KeySeq) and a["keys"].poly is P), "post")
                ex.oblige("post.names_inherited", z3.BoolVal(isinstance(a.get("names"), NamesV) and a["names"].term is P.names), "post")
                ex.oblige("post.allocation_inherited", z3.BoolVal(a.get("allocation") is P.allocation), "post")
                ex.oblige("post.dtype_inherited", (a["_dtype"].term == P.dtype) if isinstance(a.get("_dtype"), DTypeV)
                          else z3.BoolVal(False), "post")
                ex.oblige("post.only_the_four_attributes", z3.BoolVal(set(a) == {"keys", "names", "allocation", "_dtype"}), "post")
            yield Case(label, make_env, check)

    def apply(self, ex, args, kw, node):
        raise U("__array_finalize__ as a callee", node)


class GetItem(Contract):
    name = "numpoly.ndpoly.__getitem__"
    relpath = "numpoly/baseclass.py"
    func = "__getitem__"
    cls = "ndpoly"
    properties = ("C09", "C17", "C15")
    assumptions = ("numpy indexing is dtype-agnostic: a[index] has shape ishape(a.shape, index) and element j is "
                   "a[imap(j)] for a map that depends on the shape and the index only (numpy axiom)",
                   "B6: a polynomial array whose every coefficient column is column[index] has, at position j, the "
                   "polynomial found at imap(j) of the original")

    def cases(self):
        def make_env(ex):
            P = own_poly(ex)
            ex.P = P
            ex.index = IndexTok(ex.ctx, "index")
            return {"self": P, "index": ex.index}

        def check(out):
            ex, ctx = out.ex, out.ctx
            P, x = ex.P, ex.index
            if out.kind == "raise":
                ex.oblige("raises.only_from_construction", z3.BoolVal(out.exc == "PolynomialConstructionError"), "post")
                ex.oblige("raises.nothing", z3.BoolVal(False), "post",
                          note="indexing a well-formed polynomial cannot fail in the constructor")
                return
            r = out.value
            ok = isinstance(r, Poly) and hasattr(r, "from_attrs")
            ex.oblige("post.built_by_polynomial_from_attributes", z3.BoolVal(ok), "post")
            if not ok:
                return
            fa = r.from_attrs
            ex.oblige("post.rows_are_the_polynomial_own_rows", z3.BoolVal(getattr(fa["E"], "source", None) is P), "post")
            ex.oblige("post.names_are_the_polynomial_own_names",
                      z3.BoolVal(isinstance(fa["names"], NamesV) and fa["names"].term is P.names), "post")
            Cs = V.as_seq(ex, fa["C"])
            tgt = ishape(P.shape, x.term)
            ex.oblige("post.one_coefficient_per_term", Cs.n == P.N, "post")
            ex.oblige("post.every_column_indexed_with_the_same_index", ctx.forall_range(0, P.N, lambda t: z3.And(
                Cs.item(t).shape == tgt, ctx.forall_idx(
                    lambda j: Cs.item(t).elem(j) == P.C(t, imap(j, P.shape, x.term)), tgt))), "post",
                note="whole polynomial elements move: column t of the result is column t of the original at the same positions")
            ex.oblige("post.dtype_kept", r.dtype == P.dtype, "post")
            ex.oblige("post.fresh", z3.BoolVal(r.region.owner == "fresh"), "post")
        yield Case("", make_env, check)

    def apply(self, ex, args, kw, node):
        P, index = args[0], args[1]
        if not isinstance(P, Poly):
            raise U("__getitem__ of non-ndpoly", node)
        x = index if isinstance(index, IndexTok) else IndexTok.of(ex, index, node)
        ctx = ex.ctx
        tk = getattr(x, "take", None)
        if tk is not None:
            from engine.polymodel import extent
            from engine.logic import ndim
            ax, k = tk
            ex.oblige(f"pre({ex.site('getitem')}).index_in_bounds", z3.And(ndim(P.shape) > ax, 0 <= k, k < extent(P.shape, z3.IntVal(ax))),
                      "index", node, note="IndexError otherwise")
        tgt = ishape(P.shape, x.term)
        r = Poly(ctx, ctx.fresh("item"), shape=tgt, dtype=P.dtype, region=Region("fresh", "__getitem__"))
        r.owndata = z3.BoolVal(True)
        ctx.assume(r.wf(ctx))
        ctx.assume(ctx.forall_range(0, r.N, lambda t: keyok(r.row(t), r.D)))
        ctx.assume(ctx.forall_idx(lambda j: r.val(j) == P.val(imap(j, P.shape, x.term)), tgt))      # B6
        from contracts.option import get_state
        st = get_state(ex)
        rn = ovbool(st.cur.val[okey("retain_names")])
        ctx.assume(z3.Implies(rn, z3.And(r.names == P.names, r.D == P.D)))
        r.item_of = (P, x)
        return r


class Iter(Contract):
    """ndpoly.__iter__: an iterator over len(self) polynomial arrays; the k-th is built by polynomial_from_attributes from the
    polynomial's OWN exponent rows and names and, for every term, that term's coefficient array at index k of the first axis
    (so - B6 - it is element / sub-array k); len() of a 0-d array raises TypeError."""
    name = "numpoly.ndpoly.__iter__"
    relpath = "numpoly/baseclass.py"
    func = "__iter__"
    cls = "ndpoly"
    properties = ("C09", "C17")
    assumptions = ("B6 (indexing every coefficient column alike takes whole elements); contract of polynomial_from_attributes (proved)",)

    def cases(self):
        for label, sized in (("nd", True), ("0d", False)):
            def make_env(ex, sized=sized):
                from engine.logic import ndim
                P = own_poly(ex, "self", allocation=False)
                for a in extra_shape_axioms(ex.ctx):
                    ex.ctx.assume(a)
                ex.ctx.assume(ndim(P.shape) >= 1 if sized else ndim(P.shape) == 0)
                ex.P = P
                return {"self": P}

            def check(out, sized=sized):
                from engine.polymodel import extent, drop_axis, at0
                ex, ctx = out.ex, out.ctx
                P = ex.P
                if not sized:
                    ex.oblige("raises.TypeError_for_a_0d_array", z3.BoolVal(out.kind == "raise" and out.exc == "TypeError"), "post")
                    return
                ex.oblige(f"raises.nothing[{out.exc}]" if out.kind == "raise" else "raises.nothing", z3.BoolVal(out.kind == "return"), "post")
                if out.kind != "return":
                    return
                r = out.value
                ok = isinstance(r, V.Seq)
                ex.oblige("post.iterator_over_a_sequence", z3.BoolVal(ok), "post")
                if not ok:
                    return
                n = extent(P.shape, z3.IntVal(0))
                ex.oblige("post.one_item_per_index_of_the_first_axis", r.n == n, "post")
                k = ctx.int("k")
                ctx.assume(z3.And(0 <= k, k < n))
                try:
                    x = r.item(k)
                except RaiseSig as e:
                    # (a path on which building item k raises: must be infeasible)
                    ex.oblige(f"post.item_k.built_without_error[{e.exc}]", z3.BoolVal(False), "post")
                    return
                okx = isinstance(x, Poly) and hasattr(x, "from_attrs")
                ex.oblige("post.item_built_by_polynomial_from_attributes", z3.BoolVal(okx), "post")
                if not okx:
                    return
                fa = x.from_attrs
                so = getattr(fa["C"], "slice_of", None)
                ex.oblige("post.item_k.own_exponents_and_names", z3.BoolVal(
                    getattr(fa["E"], "source", None) is P and isinstance(fa["names"], NamesV) and fa["names"].term is P.names), "post")
                ex.oblige("post.item_k.every_column_indexed_at_k", z3.BoolVal(so is not None and so[0] is P) if so is None or so[0] is not P
                          else so[1] == k, "post", note="the same index k of the first axis in every coefficient column: element k")
                ex.oblige("post.item_k.shape", x.shape == drop_axis(P.shape, 0), "post")
                ex.oblige("post.item_k.retain_flags_left_to_the_options", z3.BoolVal(fa["rc"] is None and fa["rn"] is None), "post")
            yield Case(label, make_env, check)

    def apply(self, ex, args, kw, node):
        raise U("__iter__ as a callee", node)


class AsType(Contract):
    name = "numpoly.ndpoly.astype"
    relpath = "numpoly/baseclass.py"
    func = "astype"
    cls = "ndpoly"
    properties = ("C12", "C17")
    assumptions = ("A1: numpy's cast is identity on (mathematical) values; the cast catalogue over real dtypes is the bounded check",)

    def cases(self):
        def make_env(ex):
            P = own_poly(ex)
            ex.P = P
            ex.dt = ex.ctx.const("dtype_arg", DT)
            return {"self": P, "dtype": DTypeV(ex.dt), "kwargs": {}}

        def check(out):
            ex, ctx = out.ex, out.ctx
            P = ex.P
            if out.kind == "raise":
                ex.oblige("raises.nothing", z3.BoolVal(False), "post")
                return
            r = out.value
            ok = isinstance(r, Poly) and hasattr(r, "from_attrs")
            ex.oblige("post.built_by_polynomial_from_attributes", z3.BoolVal(ok), "post")
            if not ok:
                return
            fa = r.from_attrs
            ex.oblige("post.rows_are_the_polynomial_own_rows", z3.BoolVal(getattr(fa["E"], "source", None) is P), "post")
            ex.oblige("post.names_are_the_polynomial_own_names",
                      z3.BoolVal(isinstance(fa["names"], NamesV) and fa["names"].term is P.names), "post")
            Cs = V.as_seq(ex, fa["C"])
            ex.oblige("post.every_column_cast_with_numpy_astype", z3.And(Cs.n == P.N, ctx.forall_range(0, P.N, lambda t: z3.And(
                Cs.item(t).shape == P.shape, Cs.item(t).dtype == ex.dt,
                ctx.forall_idx(lambda i: z3.And(Cs.item(t).init(i), Cs.item(t).elem(i) == P.C(t, i)), P.shape)))), "post",
                note="values are those of numpy's own cast of each coefficient column")
            ex.oblige("post.result_dtype_is_the_requested_one", r.dtype == ex.dt, "post")
            ex.oblige("post.shape_kept", r.shape == P.shape, "post")
            ex.oblige("post.fresh", z3.BoolVal(r.region.owner == "fresh"), "post")
        yield Case("", make_env, check)

    def apply(self, ex, args, kw, node):
        raise U("astype as a callee", node)


class ToDict(Contract):
    name = "numpoly.ndpoly.todict"
    relpath = "numpoly/baseclass.py"
    func = "todict"
    cls = "ndpoly"
    properties = ("C19", "C03")

    def cases(self):
        def make_env(ex):
            P = own_poly(ex)
            ex.P = P
            return {"self": P}

        def check(out):
            ex, ctx = out.ex, out.ctx
            P = ex.P
            ex.oblige("raises.nothing", z3.BoolVal(out.kind == "return"), "post")
            if out.kind != "return":
                return
            d = out.value
            ok = isinstance(d, SymDict)
            ex.oblige("post.dictionary_over_the_terms", z3.BoolVal(ok), "post")
            if not ok:
                return
            ex.oblige("post.one_entry_per_term", z3.And(d.n == P.N, d.D == P.D), "post")
            ex.oblige("post.key_is_exponent_row_value_is_its_coefficient", ctx.forall_range(0, P.N, lambda t: z3.And(
                d.key(t) == P.row(t), d.val(t).shape == P.shape,
                ctx.forall_idx(lambda i: d.val(t).elem(i) == P.C(t, i), P.shape))), "post")
        yield Case("", make_env, check)

    def apply(self, ex, args, kw, node):
        raise U("todict as a callee", node)


CONTRACTS = [Reduce(), ArrayFinalize(), GetItem(), AsType(), ToDict(), Iter()]
