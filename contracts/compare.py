"""Contracts for the ordering functions greater / greater_equal / less / less_equal
(property C07).  All four share one loop skeleton; `op` is the only difference.

Spec (on the pair (A, B) returned by align_polynomials, i.e. same rows, same shape):
  diff(t,i)  := A.C(t,i) != B.C(t,i)
  w(i)       := the term with the glex-largest row among those with diff(.,i), or -1 if none
  result(i)  := op(A.C(w(i),i), B.C(w(i),i))           if w(i) != -1
                out_in(i)  (given `out`)  /  op(A.C(0,i), B.C(0,i)) = op on equal numbers (out=None)
"""
from __future__ import annotations
import z3
from engine.contract import Contract, Case
from engine import values as V
from engine.sx import LoopSpec
from engine.logic import I, Idx, B, inshape, ndim, bshape, bok
from engine.polymodel import Poly, Arr, Region, shape_axioms, dt_bool, ravel_shape, unravel_idx, ravel_idx
from engine.sortmodel import glexle, IntVec
from engine.optmodel import ovbool
from engine.values import U

OPS = {
    "greater": lambda a, b: a > b,
    "greater_equal": lambda a, b: a >= b,
    "less": lambda a, b: a < b,
    "less_equal": lambda a, b: a <= b,
}


def spec_witness(ctx, A, B, w, shape, graded, reverse):
    """w(i) is -1 iff the elements agree, else the glex-largest differing term (three lemma steps)."""
    diff = lambda u, i: A.C(u, i) != B.C(u, i)
    return [
        ("range", ctx.forall_idx(lambda i: z3.And(w(i) >= -1, w(i) < A.N), shape)),
        ("none_iff_equal", ctx.forall_idx(lambda i: z3.Implies(
            w(i) == -1, ctx.forall_range(0, A.N, lambda u: z3.Not(diff(u, i)))), shape)),
        ("differs_at_witness", ctx.forall_idx(lambda i: z3.Implies(w(i) >= 0, diff(w(i), i)), shape)),
        ("largest", ctx.forall_idx(lambda i: z3.Implies(w(i) >= 0, ctx.forall_range(0, A.N, lambda u: z3.Implies(
            diff(u, i), glexle(A.row(u), A.row(w(i)), A.D, graded, reverse)))), shape)),
    ]


class Compare(Contract):
    properties = ("C07",)
    positional = ("x1", "x2", "out")
    relpath_fmt = "numpoly/array_function/{}.py"
    assumptions = ("A1: coefficients are mathematical reals (no NaN, no complex order)",
                   "kwargs == {} (extra ufunc keywords are passed through to numpy unverified)")

    def __init__(self, fname):
        self.func = fname
        self.name = f"numpoly.{fname}"
        self.relpath = self.relpath_fmt.format(fname)
        self.op = OPS[fname]

    # ---------------------------------------------------------------- verification
    def _loops(self):
        op = self.op

        def parts(ex, env):
            g = ex.ghost
            return g["A"], g["B"], g["pi"], g["last"], g["out0"]

        def inv(ex, env, k):
            A, Bp, pi, last, out0 = parts(ex, env)
            out = env["out"]
            ctx = ex.ctx
            if not isinstance(out, Arr):
                raise U("loop accumulator `out` is not an array")

            def at(i):
                L = last(k, i)
                diff = lambda j: A.C(pi.at(j), i) != Bp.C(pi.at(j), i)
                return z3.And(L >= -1, L < k,
                              z3.Implies(L >= 0, diff(L)),
                              ctx.forall_range(0, k, lambda j: z3.Implies(j > L, z3.Not(diff(j)))),
                              out.elem(i) == z3.If(L == -1, out0(i), op(A.C(pi.at(L), i), Bp.C(pi.at(L), i))))
            return [("acc", ctx.forall_idx(at, out.shape))]

        def havoc(ex, env, k):
            out = env["out"]
            h = ex.ctx.func("out_h", Idx, B)
            out._elem = lambda i: h(i)

        def ghost(ex, env, k):
            A, Bp, pi, last, out0 = parts(ex, env)
            return [ex.ctx.forall_idx(lambda i: last(k + 1, i) == z3.If(A.C(pi.at(k), i) != Bp.C(pi.at(k), i), k, last(k, i)))]
        def enter(ex, env, seq):
            from engine.polymodel import _freeze
            ex.ghost["out0"] = _freeze(env["out"])
        return {1: LoopSpec(inv, havoc, modifies=("out", "idx", "indices"), ghost=ghost, enter=enter)}

    def _setup(self, ex, with_out, zero_d):
        ctx = ex.ctx
        for a in shape_axioms(ctx):
            ctx.assume(a)
        x1 = Poly(ctx, "x1", region=Region("caller", "x1"))
        x2 = Poly(ctx, "x2", region=Region("caller", "x2"))
        ctx.assume(x1.wf(ctx))
        ctx.assume(x2.wf(ctx))
        ctx.assume(bok(x1.shape, x2.shape))
        shape = bshape(x1.shape, x2.shape)
        if zero_d is not None:
            ctx.assume((ndim(shape) == 0) if zero_d else (ndim(shape) >= 1))
        env = {"x1": x1, "x2": x2, "kwargs": {}}
        if with_out:
            of = z3.Function("out_in", Idx, B)
            out = Arr(shape, lambda i: of(i), "bool", dt_bool, Region("out", "out argument"))
            env["out"] = out
            ex.out_in = lambda i: of(i)
            ex.out_obj = out
        else:
            env["out"] = None
            ex.out_in = None
        ex.ghost = {}
        ex.hooks = {"after_align": self._after_align, "after_glexsort": self._after_glexsort}
        return env

    def _after_align(self, ex, res):
        ex.ghost["A"], ex.ghost["B"] = res

    def _after_glexsort(self, ex, rho):
        ctx = ex.ctx
        ex.ghost["pi"] = rho
        last = ctx.func("last", I, Idx, I)
        ex.ghost["last"] = last
        ctx.assume(ctx.forall_sort(Idx, lambda i: last(0, i) == -1, "i"))

    def cases(self):
        for label, with_out, zero_d in (("nd", False, False), ("nd_out", True, False), ("0d", False, True)):
            def make_env(ex, with_out=with_out, zero_d=zero_d):
                return self._setup(ex, with_out, zero_d)

            def check(out, with_out=with_out, zero_d=zero_d):
                self._check(out, with_out, zero_d)
            yield Case(label, make_env, check, loops=self._loops())

    def _check(self, out, with_out, zero_d):
        ex, ctx = out.ex, out.ctx
        ex.oblige("raises.nothing", z3.BoolVal(out.kind == "return"), "post")
        if out.kind != "return":
            return
        res = out.value
        if zero_d:
            # result of the recursion on the raveled operands, `.item()`: a scalar boolean
            ok = isinstance(res, z3.BoolRef) or isinstance(res, bool)
            ex.oblige("post.scalar_result", z3.BoolVal(ok), "post")
            g = getattr(ex, "rec_ghost", None)
            ex.oblige("post.recursion_used_own_contract", z3.BoolVal(g is not None), "post")
            return
        ok = isinstance(res, Arr) and res.kind == "bool"
        ex.oblige("post.boolean_array", z3.BoolVal(ok), "post")
        if not ok or "last" not in ex.ghost or "A" not in ex.ghost:
            ex.oblige("post.loop_reached", z3.BoolVal(False), "post")
            return
        A, Bp, pi, last = ex.ghost["A"], ex.ghost["B"], ex.ghost["pi"], ex.ghost["last"]
        K, graded, reverse = pi.sorted_keys
        ex.oblige("post.shape", res.shape == A.shape, "post")
        if with_out:
            ex.oblige("post.returns_out_object", z3.BoolVal(res is ex.out_obj), "post")
        w = lambda i: z3.If(last(A.N, i) == -1, -1, pi.at(last(A.N, i)))
        from engine.optmodel import okey
        from contracts.option import get_state
        st = get_state(ex)
        def _b(v):
            return z3.BoolVal(v) if isinstance(v, bool) else v
        ex.oblige("post.order_uses_sort_options",
                  z3.And(_b(graded) == ovbool(st.cur.val[okey("sort_graded")]),
                         _b(reverse) == ovbool(st.cur.val[okey("sort_reverse")])), "post",
                  note="glexsort must be called with graded/reverse taken from the sort_graded/sort_reverse options")
        ex.oblige("post.sorted_rows_are_the_aligned_rows",
                  z3.And(K.n == A.N, K.D == A.D, ctx.forall_range(0, A.N, lambda c: K.col(c) == A.row(c))), "post")
        # instantiation hint (a re-statement of the permutation fact already assumed by glexsort's
        # contract, triggered on the coefficient terms that occur in the goals)
        u, ii = z3.Int(ctx.fresh("u")), z3.Const(ctx.fresh("i"), Idx)
        ctx.assume(z3.ForAll([u, ii], z3.Implies(z3.And(0 <= u, u < A.N), z3.And(
            0 <= pi.inv(u), pi.inv(u) < A.N, pi.at(pi.inv(u)) == u)), patterns=[A.C(u, ii)]))
        for cname, f in spec_witness(ctx, A, Bp, w, res.shape, graded, reverse):
            ex.oblige(f"post.witness.{cname}", f, "post")
        base = ex.out_in if with_out else (lambda i: self.op(A.C(0, i), Bp.C(0, i)))
        ex.oblige("post.value", ctx.forall_idx(
            lambda i: res.elem(i) == z3.If(w(i) == -1, base(i), self.op(A.C(w(i), i), Bp.C(w(i), i))), res.shape), "post")

    # ---------------------------------------------------------------- use at call sites
    def apply(self, ex, args, kw, node):
        from contracts.align import AlignPolynomials
        site = ex.site(self.func)
        x1, x2 = args[0], args[1]
        out = kw.get("out", args[2] if len(args) > 2 else None)
        if not (isinstance(x1, Poly) and isinstance(x2, Poly)):
            raise U(f"{self.func} of non-ndpoly operands", node)
        ctx = ex.ctx
        ex.oblige(f"pre({site}).shapes_broadcast", bok(x1.shape, x2.shape), "precondition", node)
        shape = bshape(x1.shape, x2.shape)
        if ex.owner is self:
            ex.oblige(f"pre({site}).recursion_decreases", ndim(shape) >= 1, "precondition", node,
                      note="the 0-d case may only recurse into the >=1-d case")
        else:
            raise U(f"{self.func} called from another function (only the self-recursion is modelled)", node)
        if not isinstance(out, Arr):
            raise U("recursive call without out=", node)
        ex.oblige(f"pre({site}).out_shape", out.shape == shape, "precondition", node)
        # effect: out is overwritten in place and returned
        h = ctx.func("rec_out", Idx, B)
        old = out.elem
        out.write(ex, lambda i: h(i), node)
        ex.rec_ghost = True
        return out


CONTRACTS = [Compare(n) for n in OPS]


# ====================================================================== maximum / minimum
class Where(Contract):
    """numpoly.where(condition, x, y) at the level of abstract polynomial values (PV):
    element i of the result denotes x_i where the condition holds and y_i elsewhere."""
    name = "numpoly.where"
    relpath = "numpoly/array_function/where.py"
    func = "where"
    properties = ("C09",)

    assumptions = ("B6: selecting every coefficient column with ONE boolean mask selects whole polynomial elements",
                   "condition given as a boolean array of the operands' common shape; two polynomial operands")

    def cases(self):
        def make_env(ex):
            from contracts.align import sym_polys
            ps = sym_polys(ex, 2)
            ex.inputs = ps
            common = bshape(ps[0].shape, ps[1].shape)
            cf = ex.ctx.func("condition", Idx, B)
            ex.cond = Arr(common, lambda i: cf(i), "bool", region=Region("caller", "condition"))
            ex.ghost = {}
            ex.hooks = {"after_align": lambda ex_, res: ex_.ghost.update(aligned=list(res))}
            return {"condition": ex.cond, "args": tuple(ps)}

        def check(out):
            ex, ctx = out.ex, out.ctx
            ex.oblige(f"raises.nothing[{out.exc}:{out.value}]" if out.kind == "raise" else "raises.nothing", z3.BoolVal(out.kind == "return"), "post")
            if out.kind != "return":
                return
            r = out.value
            ok = isinstance(r, Poly) and hasattr(r, "from_attrs") and "aligned" in ex.ghost
            ex.oblige("post.built_from_the_aligned_operands", z3.BoolVal(ok), "post")
            if not ok:
                return
            A, Bp = ex.ghost["aligned"]
            fa = r.from_attrs
            from engine.polymodel import NamesV as _NV, result_type as _rt
            ex.oblige("post.rows_and_names_of_the_aligned_operands", z3.BoolVal(
                getattr(fa["E"], "source", None) is A and isinstance(fa["names"], _NV) and fa["names"].term is A.names), "post")
            Cs = V.as_seq(ex, fa["C"])
            c = ex.cond.elem
            ex.oblige("post.every_column_selected_with_the_same_mask", z3.And(Cs.n == A.N, ctx.forall_range(0, A.N, lambda t: z3.And(
                Cs.item(t).shape == A.shape, ctx.forall_idx(
                    lambda i: Cs.item(t).elem(i) == z3.If(c(i), A.C(t, i), Bp.C(t, i)), A.shape)))), "post",
                note="term t of the result is term t of x where the condition holds and of y elsewhere, for every term alike")
            ex.oblige("post.dtype_is_numpy_promotion", r.dtype == _rt(ex.inputs[0].dtype, ex.inputs[1].dtype), "post")
            ex.oblige("post.shape", r.shape == A.shape, "post")
            ex.oblige("post.fresh", z3.BoolVal(r.region.owner == "fresh"), "post")
        yield Case("", make_env, check)

    def apply(self, ex, args, kw, node):
        cond, x, y = args
        scalar_y = isinstance(y, (int, float)) and not isinstance(y, bool)
        if not (isinstance(cond, Arr) and cond.kind == "bool" and isinstance(x, Poly) and (isinstance(y, Poly) or scalar_y)):
            raise U("where with these operand kinds", node)
        site = ex.site("where")
        ex.oblige(f"pre({site}).same_shape", z3.And(cond.shape == x.shape, x.shape == y.shape) if not scalar_y
                  else cond.shape == x.shape, "precondition", node)
        ctx = ex.ctx
        r = Poly(ctx, ctx.fresh("where"), shape=x.shape)
        ctx.assume(r.wf(ctx))
        c = cond.elem
        if scalar_y:
            from contracts.division import pconst
            yv = lambda i: pconst(z3.RealVal(y))          # a number is the constant polynomial
        else:
            yv = y.val
        ctx.assume(ctx.forall_idx(lambda i: r.val(i) == z3.If(c(i), x.val(i), yv(i)), r.shape))
        r.where_of = (cond, x, y)
        return r


class Extremum(Compare):
    """maximum / minimum: same loop as the comparisons with a fresh all-False accumulator,
    then where(acc, x1, x2)."""
    properties = ("C07",)

    def __init__(self, fname, op):
        self.func = fname
        self.name = f"numpoly.{fname}"
        self.relpath = self.relpath_fmt.format(fname)
        self.op = op

    def _loops(self):
        loops = super()._loops()
        spec = loops[1]
        base_inv, base_havoc, base_enter = spec.inv, spec.havoc, spec.enter

        def ren(env):
            e = dict(env)
            e["out"] = env["out_"]
            return e
        return {1: LoopSpec(lambda ex, env, k: base_inv(ex, ren(env), k),
                            lambda ex, env, k: base_havoc(ex, ren(env), k),
                            modifies=("out_", "idx", "indices"), ghost=spec.ghost,
                            enter=lambda ex, env, seq: base_enter(ex, ren(env), seq))}

    def cases(self):
        def make_env(ex):
            env = self._setup(ex, False, None)
            env["out"] = None
            return env

        def check(out):
            ex, ctx = out.ex, out.ctx
            ex.oblige("raises.nothing", z3.BoolVal(out.kind == "return"), "post")
            if out.kind != "return":
                return
            res = out.value
            ok = isinstance(res, Poly) and hasattr(res, "where_of") and "last" in ex.ghost
            ex.oblige("post.result_is_where_of_operands", z3.BoolVal(ok), "post")
            if not ok:
                return
            cond, xa, xb = res.where_of
            A, Bp, pi, last = ex.ghost["A"], ex.ghost["B"], ex.ghost["pi"], ex.ghost["last"]
            K, graded, reverse = pi.sorted_keys
            from engine.optmodel import okey
            from contracts.option import get_state
            st = get_state(ex)
            bb = lambda v: z3.BoolVal(v) if isinstance(v, bool) else v
            ex.oblige("post.order_uses_sort_options",
                      z3.And(bb(graded) == ovbool(st.cur.val[okey("sort_graded")]),
                             bb(reverse) == ovbool(st.cur.val[okey("sort_reverse")])), "post")
            ex.oblige("post.sorted_rows_are_the_aligned_rows",
                      z3.And(K.n == A.N, K.D == A.D, ctx.forall_range(0, A.N, lambda c: K.col(c) == A.row(c))), "post")
            ex.oblige("post.selects_between_the_aligned_operands", z3.BoolVal(xa is A and xb is Bp), "post")
            w = lambda i: z3.If(last(A.N, i) == -1, -1, pi.at(last(A.N, i)))
            u, ii = z3.Int(ctx.fresh("u")), z3.Const(ctx.fresh("i"), Idx)
            ctx.assume(z3.ForAll([u, ii], z3.Implies(z3.And(0 <= u, u < A.N), z3.And(
                0 <= pi.inv(u), pi.inv(u) < A.N, pi.at(pi.inv(u)) == u)), patterns=[A.C(u, ii)]))
            for cname, f in spec_witness(ctx, A, Bp, w, res.shape, graded, reverse):
                ex.oblige(f"post.witness.{cname}", f, "post")
            # element i is x1_i iff x1_i is strictly larger (smaller) at the largest differing monomial, else x2_i
            ex.oblige("post.value", ctx.forall_idx(lambda i: res.val(i) == z3.If(
                z3.And(w(i) != -1, self.op(A.C(w(i), i), Bp.C(w(i), i))), A.val(i), Bp.val(i)), res.shape), "post")
        yield Case("", make_env, check, loops=self._loops())

    def apply(self, ex, args, kw, node):
        raise U(f"{self.func} as a callee", node)


# ====================================================================== equal / not_equal
class Equal(Contract):
    name = "numpoly.equal"
    relpath = "numpoly/array_function/equal.py"
    func = "equal"
    properties = ("C07",)
    assumptions = Compare.assumptions

    def _loops(self):
        def inv(ex, env, k):
            A, Bp, out0 = ex.ghost["A"], ex.ghost["B"], ex.ghost["out0"]
            out = env["out"]
            return [("acc", ex.ctx.forall_idx(lambda i: out.elem(i) == z3.And(
                out0(i), ex.ctx.forall_range(0, k, lambda t: A.C(t, i) == Bp.C(t, i))), out.shape))]

        def havoc(ex, env, k):
            h = ex.ctx.func("out_h", Idx, B)
            env["out"]._elem = lambda i: h(i)

        def enter(ex, env, seq):
            from engine.polymodel import _freeze
            ex.ghost["out0"] = _freeze(env["out"])
        return {1: LoopSpec(inv, havoc, modifies=("out", "coeff1", "coeff2"), enter=enter)}

    def cases(self):
        helper = Compare("greater")
        for label, with_out, zero_d in (("nd", False, False), ("nd_out", True, False), ("0d", False, True)):
            def make_env(ex, with_out=with_out, zero_d=zero_d):
                env = helper._setup(ex, with_out, zero_d)
                ex.hooks = {"after_align": helper._after_align}
                env["where"] = True
                return env

            def check(out, with_out=with_out, zero_d=zero_d):
                ex, ctx = out.ex, out.ctx
                ex.oblige("raises.nothing", z3.BoolVal(out.kind == "return"), "post")
                if out.kind != "return":
                    return
                res = out.value
                if zero_d:
                    ex.oblige("post.scalar_result", z3.BoolVal(isinstance(res, (bool, z3.BoolRef))), "post")
                    ex.oblige("post.recursion_used_own_contract", z3.BoolVal(getattr(ex, "rec_ghost", None) is not None), "post")
                    return
                ok = isinstance(res, Arr) and res.kind == "bool" and "A" in ex.ghost
                ex.oblige("post.boolean_array", z3.BoolVal(ok), "post")
                if not ok:
                    return
                A, Bp = ex.ghost["A"], ex.ghost["B"]
                ex.oblige("post.shape", res.shape == A.shape, "post")
                base = ex.out_in if with_out else (lambda i: z3.BoolVal(True))
                ex.oblige("post.value", ctx.forall_idx(lambda i: res.elem(i) == z3.And(
                    base(i), ctx.forall_range(0, A.N, lambda t: A.C(t, i) == Bp.C(t, i))), res.shape), "post",
                    note="== holds exactly where every coefficient of the aligned operands agrees")
            yield Case(label, make_env, check, loops=self._loops())

    def apply(self, ex, args, kw, node):
        return Compare.apply(self, ex, args, kw, node)


class NotEqual(Contract):
    name = "numpoly.not_equal"
    relpath = "numpoly/array_function/not_equal.py"
    func = "not_equal"
    properties = ("C07",)
    assumptions = Compare.assumptions + ("operands have equal shapes (not_equal aligns exponents only; numpy broadcasts the columns)",)

    def _loops(self):
        def inv(ex, env, k):
            A, Bp = ex.ghost["A"], ex.ghost["B"]
            out = env["out"]
            if not isinstance(out, Arr):
                raise U("accumulator is not an array after the first iteration")
            return [("acc", ex.ctx.forall_idx(lambda i: out.elem(i) == z3.Not(
                ex.ctx.forall_range(0, k, lambda t: A.C(t, i) == Bp.C(t, i))), out.shape)),
                    ("acc_shape", out.shape == A.shape)]

        def havoc(ex, env, k):
            h = ex.ctx.func("out_h", Idx, B)
            env["out"]._elem = lambda i: h(i)
        return {1: LoopSpec(inv, havoc, modifies=("out", "key", "tmp"), peel=1)}

    def cases(self):
        helper = Compare("greater")

        def make_env(ex):
            ctx = ex.ctx
            for a in shape_axioms(ctx):
                ctx.assume(a)
            x1 = Poly(ctx, "x1", region=Region("caller", "x1"))
            x2 = Poly(ctx, "x2", region=Region("caller", "x2"))
            ctx.assume(x1.wf(ctx))
            ctx.assume(x2.wf(ctx))
            ctx.assume(x1.shape == x2.shape)
            ex.ghost = {}

            def after(ex_, res):
                # align_exponents keeps each operand's own shape
                if "A" not in ex_.ghost:
                    ex_.ghost["A"], ex_.ghost["B"] = res
            ex.hooks = {"after_align": after}
            return {"x1": x1, "x2": x2, "out": None, "where": True, "kwargs": {}}

        def check(out):
            ex, ctx = out.ex, out.ctx
            ex.oblige("raises.nothing", z3.BoolVal(out.kind == "return"), "post")
            if out.kind != "return":
                return
            res = out.value
            ok = isinstance(res, Arr) and res.kind == "bool" and "A" in ex.ghost
            ex.oblige("post.boolean_array", z3.BoolVal(ok), "post")
            if not ok:
                return
            A, Bp = ex.ghost["A"], ex.ghost["B"]
            ex.oblige("post.shape", res.shape == A.shape, "post")
            ex.oblige("post.value", ctx.forall_idx(lambda i: res.elem(i) == z3.Not(
                ctx.forall_range(0, A.N, lambda t: A.C(t, i) == Bp.C(t, i))), res.shape), "post",
                note="!= is the complement of ==")
        yield Case("", make_env, check, loops=self._loops())

    def apply(self, ex, args, kw, node):
        raise U("not_equal as a callee", node)


CONTRACTS = CONTRACTS + [Where(), Extremum("maximum", lambda a, b: a > b), Extremum("minimum", lambda a, b: a < b),
                         Equal(), NotEqual()]
