"""Contract for numpoly.poly_function.call.call (property C02): numeric evaluation at scalar points.

Proved from the real source, for ANY number of terms, ANY exponents and coefficient values, any array shape of the
polynomial, symbolic (real) evaluation points, with the indeterminate tuple enumerated (D = 1: (q0,), D = 2: (q0, q1))
and every way of supplying the points enumerated (positional, keyword, None placeholder, mixed):

    result[i]  =  sum over ALL terms t of   C(t, i) * prod_d  a_d ** E(t, d)        (ghost sum S(N, i), defined by recursion)
    where a_d is the value the caller designated for the d-th indeterminate (by position or by name),
    result is a plain array of shape poly.shape (+ () for scalar points);
    TypeError and nothing else for a name supplied twice or an unknown keyword, before anything is computed.

`x ** e` is the uninterpreted rpow(x, e): what is proved is the binding of arguments to indeterminates, that every
term contributes exactly once with its own coefficient and exponents, int() conversion of the stored exponents,
and the result shape.  Polynomial substitution (every indeterminate given a 0-d polynomial; Call._substitution_cases) is
proved at the level of abstract polynomial values: the same sum in the ring PV.  Not within this proof (bounded run-time
check conc/checks_c02.py): polynomial arguments that are arrays, numbers mixed with polynomial arguments, staged
evaluation, machine-number kinds (Python int vs numpy scalar vs float).  Array-valued numeric points: Call._array_cases.
"""
from __future__ import annotations
import itertools
import z3
from engine.contract import Contract, Case
from engine.sx import LoopSpec
from engine import values as V
from engine.values import U
from engine.logic import I, Idx, B, R, Shp, DT, expo, rpow, inshape
from engine.polymodel import (Poly, Arr, NamesV, IndetElem, Region, Names, nlen, nat, shape_axioms, mono_axioms, shp0, sconcat,
                              as_name, ShapeV)
from engine.sortmodel import order_axioms
from contracts.construct import keyok, eok_axioms
from contracts.align import extra_shape_axioms


class PolynomialShapeOnly(Contract):
    """ASSUMED (input kinds used by call): numpoly.polynomial(x) has the shape of x (0-d for a number)."""
    name, func, relpath, properties = "numpoly.polynomial", "polynomial", "numpoly/construct/polynomial.py", ("C03",)

    def cases(self):
        return iter(())

    def apply(self, ex, args, kw, node):
        v = args[0]
        from contracts.shapefn import MovedRaw, rewrap
        if isinstance(v, MovedRaw) and len(args) == 1 and "names" in kw and set(kw) <= {"names", "allocation"}:
            return rewrap(ex, v, kw["names"], node, kw.get("allocation"))
        if kw or len(args) != 1:
            raise U("polynomial(...) with keywords at a call site", node)
        if isinstance(v, Poly):
            return v
        if isinstance(v, IndetElem):
            return v
        if isinstance(v, Arr):
            r = Poly(ex.ctx, ex.ctx.fresh("const"), shape=v.shape, region=Region("fresh", "polynomial(array)"))
            return r
        if isinstance(v, (int, float)) or (isinstance(v, z3.ArithRef)):
            return Poly(ex.ctx, ex.ctx.fresh("const"), shape=shp0, region=Region("fresh", "polynomial(number)"))
        raise U("polynomial(...) of this input kind", node)


NAMES = ("q0", "q1", "q2")


def binding_cases():
    """(label, D, args, kwargs, outcome): how the evaluation points are supplied.  Entries of args/kwargs are
    indices of the designated indeterminate (-> its symbolic point), None (placeholder) or 'x' (some other value)."""
    out = [("D1.positional", 1, (0,), {}, "ok"), ("D1.keyword", 1, (), {"q0": 0}, "ok"), ("D1.kwargs_none", 1, (0,), None, "ok"),
           ("D2.positional", 2, (0, 1), {}, "ok"), ("D2.keyword", 2, (), {"q1": 1, "q0": 0}, "ok"),
           ("D2.mixed", 2, (0,), {"q1": 1}, "ok"),
           # (a None placeholder together with a keyword for the same name raises "multiple values": neither demanded nor
           #  forbidden by the property; placeholders otherwise mean partial evaluation, which is outside this proof)
           ("D2.twice", 2, (0, 1), {"q1": "x"}, "TypeError"), ("D2.twice_first", 2, (0,), {"q0": "x", "q1": 1}, "TypeError"),
           ("D2.unknown_keyword", 2, (0, 1), {"q7": "x"}, "TypeError"), ("D1.unknown_keyword", 1, (), {"q0": 0, "zz": "x"}, "TypeError")]
    from engine.contract import deep
    if deep():
        out += [("D3.positional", 3, (0, 1, 2), {}, "ok"), ("D3.mixed", 3, (0,), {"q2": 2, "q1": 1}, "ok"),
                ("D3.twice", 3, (0, 1, 2), {"q1": "x"}, "TypeError")]
    return out


def substitution_cases():
    """polynomial substitution: every indeterminate is given a scalar (0-d) polynomial"""
    return [("D1.poly_positional", 1, (0,), {}), ("D1.poly_keyword", 1, (), {"q0": 0}), ("D2.poly_positional", 2, (0, 1), {}),
            ("D2.poly_mixed", 2, (0,), {"q1": 1}),
            # partial evaluation: an indeterminate that is given nothing (or a None placeholder) stands for itself
            ("D2.poly_partial_first", 2, (0,), {}), ("D2.poly_partial_keyword", 2, (), {"q1": 1}), ("D2.poly_partial_placeholder", 2, (None, 1), {})] + (
        [("D3.poly_positional", 3, (0, 1, 2), {}), ("D3.poly_partial", 3, (0, None, 2), {}), ("D3.poly_keyword", 3, (), {"q2": 2, "q0": 0})]
        if __import__("engine.contract", fromlist=["deep"]).deep() else [])


def install_axioms(reg):
    """(numpoly.outer is under contract now - contracts/linalg.py - and its reshape is numpy's ndarray.reshape: engine.polymodel)"""


class Call(Contract):
    name = "numpoly.call"
    relpath = "numpoly/poly_function/call.py"
    func = "call"
    properties = ("C02", "C17")
    positional = ("poly", "args", "kwargs")
    assumptions = ("A1: evaluation points and coefficients are mathematical reals; x**e is uninterpreted (rpow)",
                   "indeterminate tuples enumerated: (q0,), (q0, q1); ways of supplying points enumerated (10 + 4 cases)",
                   "scalar points / 0-d polynomials only; assumed shape-only contract of numpoly.polynomial for numbers",
                   "polynomial substitution: value-level contracts of power (proved: PowerScalar), multiply (proved), add (proved), "
                   "clean_attributes / align_indeterminants (proved: value kept), outer (proved, contracts/linalg.py); numpy axiom: reshape of "
                   "outer(a, b) to a.shape + b.shape keeps the C order; B10 (a constant polynomial denotes the constant tonumpy returns)")

    def _loops(self, D):
        def inv(ex, env, k):
            g = ex.ghost
            out = env["out"]
            ok = isinstance(out, Arr)
            if not ok:
                return [("accumulator_is_a_plain_array", z3.BoolVal(False))]
            S = g["P"].shape
            return [("shape", out.shape == S),
                    ("partial_sum_of_the_first_k_terms", ex.ctx.forall_idx(lambda i: out.elem(i) == g["S"](k, i), S))]

        def havoc(ex, env, k):
            P = ex.ghost["P"]
            h = ex.ctx.func("out_h", Idx, R)
            env["out"] = Arr(P.shape, lambda i: h(i), "real", ex.ctx.const("dt_out", DT), Region("fresh"))
        mods = ("out", "term", "tmp", "exponent", "coefficient", "power", "name", "value")
        def ghost(ex, env, k):
            from engine.logic import unfold_at
            return [unfold_at(k + 1)]
        return {3: LoopSpec(inv, havoc, modifies=mods, peel=1, ghost=ghost)}

    def _loops_poly(self, D):
        def inv(ex, env, k):
            g = ex.ghost
            out = env["out"]
            if not isinstance(out, Poly):
                return [("accumulator_is_a_polynomial", z3.BoolVal(False))]
            S = g.get("ST", g["P"].shape)
            return [("shape", out.shape == S),
                    ("rows_storable", ex.ctx.forall_range(0, out.N, lambda t: keyok(out.row(t), out.D))),
                    ("partial_sum_of_the_first_k_terms", ex.ctx.forall_idx(lambda i: out.val(i) == g["SP"](k, i), S))]

        def havoc(ex, env, k):
            P = ex.ghost["P"]
            o = Poly(ex.ctx, ex.ctx.fresh("acc"), shape=ex.ghost.get("ST", P.shape), region=Region("fresh", "accumulator"))
            o.owndata = z3.BoolVal(True)
            ex.ctx.assume(o.wf(ex.ctx))
            env["out"] = o
        mods = ("out", "term", "tmp", "exponent", "coefficient", "power", "name", "value")

        def ghost(ex, env, k):
            from engine.logic import unfold_at
            return [unfold_at(k + 1), unfold_at(k)]
        return {3: LoopSpec(inv, havoc, modifies=mods, peel=1, ghost=ghost)}

    def _substitution_cases(self):
        from engine.logic import PV, unfold_at
        from engine.polymodel import the_idx
        from contracts.division import ring_axioms, pconst, pzero
        from contracts.dispatchfn import padd, pmul
        from contracts.multiply import ppow, pone
        for label, D, args, kwargs in substitution_cases():
            def make_env(ex, D=D, args=args, kwargs=kwargs):
                ctx = ex.ctx
                for a in shape_axioms(ctx) + extra_shape_axioms(ctx) + mono_axioms(ctx) + order_axioms(ctx) + eok_axioms() + ring_axioms(ctx):
                    ctx.assume(a)
                P = Poly(ctx, "poly", D=D, region=Region("caller", "poly"))
                ctx.assume(P.wf(ctx))
                ctx.assume(ctx.forall_range(0, P.N, lambda t: keyok(P.row(t), P.D)))
                P.concrete_names = list(NAMES[:D])
                for d in range(D):
                    ctx.assume(nat(P.names, d) == as_name(ex, NAMES[d]))
                subs = []
                for d in range(D):
                    q = Poly(ctx, f"sub{d}", shape=shp0, region=Region("caller", f"sub{d}"))
                    ctx.assume(q.wf(ctx))
                    ctx.assume(ctx.forall_range(0, q.N, lambda t, q=q: keyok(q.row(t), q.D)))
                    subs.append(q)
                from engine.polymodel import pvar
                given = {v for v in args if v is not None} | {v for v in kwargs.values()}
                vs = [subs[d].val(the_idx(shp0)) if d in given else pvar(nat(P.names, d)) for d in range(D)]
                x = z3.Const(ctx.fresh("x"), PV)
                ctx.assume(z3.And(pconst(z3.RealVal(1)) == pone, z3.ForAll([x], pmul(pone, x) == x), z3.ForAll([x], ppow(x, 0) == pone)))
                SP = ctx.func("SP", I, Idx, PV)
                k, i = z3.Int(ctx.fresh("k")), z3.Const(ctx.fresh("i"), Idx)

                def T(t):
                    out = ppow(vs[0], expo(P.row(t), 0))
                    for d in range(1, D):
                        out = pmul(out, ppow(vs[d], expo(P.row(t), d)))
                    return out
                ctx.assume(z3.ForAll([i], SP(0, i) == pzero))
                ctx.assume(z3.ForAll([k, i], z3.Implies(k >= 1, SP(k, i) == padd(SP(k - 1, i), pmul(pconst(P.C(k - 1, i)), T(k - 1)))),
                                     patterns=[z3.MultiPattern(SP(k, i), unfold_at(k))]))
                ctx.assume(unfold_at(1))
                ex.ghost = {"P": P, "SP": SP, "subs": subs}
                ex.hooks = {}
                return {"poly": P, "args": tuple(None if v is None else subs[v] for v in args),
                        "kwargs": {n: subs[v] for n, v in kwargs.items()}}

            def check(out):
                ex, ctx = out.ex, out.ctx
                P, SP = ex.ghost["P"], ex.ghost["SP"]
                ex.oblige(f"raises.nothing[{out.exc}:{out.value}]" if out.kind == "raise" else "raises.nothing", z3.BoolVal(out.kind == "return"), "post")
                if out.kind != "return":
                    return
                r = out.value
                if isinstance(r, Arr):
                    src = getattr(r, "tonumpy_of", None)
                    ok = isinstance(src, Poly)
                    ex.oblige("post.constant_result_is_tonumpy_of_the_sum", z3.BoolVal(ok), "post")
                    if not ok:
                        return
                    ex.oblige("post.shape_is_poly_shape", z3.And(r.shape == P.shape, src.shape == P.shape), "post")
                    ex.oblige("post.value_is_sum_over_terms_of_coefficient_times_argument_powers",
                              ctx.forall_idx(lambda i: src.val(i) == SP(P.N, i), P.shape), "post",
                              note="(the numeric array returned is the constant polynomial's coefficient: B10)")
                    return
                ok = isinstance(r, Poly)
                ex.oblige("post.polynomial_for_polynomial_arguments", z3.BoolVal(ok), "post")
                if not ok:
                    return
                ex.oblige("post.shape_is_poly_shape", r.shape == P.shape, "post")
                ex.oblige("post.value_is_sum_over_terms_of_coefficient_times_argument_powers",
                          ctx.forall_idx(lambda i: r.val(i) == SP(P.N, i), P.shape), "post",
                          note="p(a_0, .., a_{D-1}) = sum_t C_t * prod_d a_d ** E(t, d) in the polynomial ring")
            yield Case(label, make_env, check, loops=self._loops_poly(D))

    def cases(self):
        yield from self._numeric_cases()
        yield from self._substitution_cases()
        yield from self._array_cases()
        yield from self._array_substitution_cases()

    def _loops_array(self, D):
        def inv(ex, env, k):
            g = ex.ghost
            out = env["out"]
            if not isinstance(out, Arr):
                return [("accumulator_is_a_plain_array", z3.BoolVal(False))]
            return [("shape", out.shape == g["ST"]),
                    ("partial_sum_of_the_first_k_terms", ex.ctx.forall_idx(lambda p: out.elem(p) == g["SA"](k, p), g["ST"]))]

        def havoc(ex, env, k):
            h = ex.ctx.func("out_h", Idx, R)
            env["out"] = Arr(ex.ghost["ST"], lambda p: h(p), "real", ex.ctx.const("dt_out", DT), Region("fresh"))
        mods = ("out", "term", "tmp", "exponent", "coefficient", "power", "name", "value")

        def ghost(ex, env, k):
            from engine.logic import unfold_at
            return [unfold_at(k + 1)]
        return {3: LoopSpec(inv, havoc, modifies=mods, peel=1, ghost=ghost)}

    def _array_substitution_cases(self):
        """polynomial substitution with ARRAY-valued polynomial arguments: result[i ++ j] = sum_t C(t, i) * prod_d a_d[j] ** E(t, d) in the ring"""
        from engine.logic import PV, unfold_at, bshape, bok, proj
        from engine.polymodel import concat_axioms, ileft, iright
        from contracts.division import ring_axioms, pconst, pzero
        from contracts.dispatchfn import padd, pmul
        from contracts.multiply import ppow, pone
        for label, D, args, kwargs in (("D1.polyarray_positional", 1, (0,), {}), ("D2.polyarrays_positional", 2, (0, 1), {}),
                                       ("D2.polyarrays_keyword", 2, (), {"q1": 1, "q0": 0})):
            def make_env(ex, D=D, args=args, kwargs=kwargs):
                ctx = ex.ctx
                for a in shape_axioms(ctx) + extra_shape_axioms(ctx) + mono_axioms(ctx) + order_axioms(ctx) + eok_axioms() + ring_axioms(ctx) \
                        + concat_axioms(ctx):
                    ctx.assume(a)
                P = Poly(ctx, "poly", D=D, region=Region("caller", "poly"))
                ctx.assume(P.wf(ctx))
                ctx.assume(ctx.forall_range(0, P.N, lambda t: keyok(P.row(t), P.D)))
                P.concrete_names = list(NAMES[:D])
                for d in range(D):
                    ctx.assume(nat(P.names, d) == as_name(ex, NAMES[d]))
                subs = []
                for d in range(D):
                    q = Poly(ctx, f"sub{d}", region=Region("caller", f"sub{d}"))
                    ctx.assume(q.wf(ctx))
                    ctx.assume(ctx.forall_range(0, q.N, lambda t, q=q: keyok(q.row(t), q.D)))
                    subs.append(q)
                T = subs[0].shape
                for q in subs[1:]:
                    ctx.assume(bok(T, q.shape))
                    T = bshape(T, q.shape)
                ST = sconcat(P.shape, T)
                x = z3.Const(ctx.fresh("x"), PV)
                ctx.assume(z3.And(pconst(z3.RealVal(1)) == pone, z3.ForAll([x], pmul(pone, x) == x), z3.ForAll([x], ppow(x, 0) == pone)))
                SP = ctx.func("SPa", I, Idx, PV)
                k, p = z3.Int(ctx.fresh("k")), z3.Const(ctx.fresh("p"), Idx)

                def term(t, j):
                    out = None
                    for d in range(D):
                        jd = j if z3.eq(subs[d].shape, T) else proj(j, T, subs[d].shape)
                        f = ppow(subs[d].val(jd), expo(P.row(t), d))
                        out = f if out is None else pmul(out, f)
                    return out
                ctx.assume(z3.ForAll([p], SP(0, p) == pzero))
                ctx.assume(z3.ForAll([k, p], z3.Implies(k >= 1, SP(k, p) == padd(SP(k - 1, p), pmul(pconst(P.C(k - 1, ileft(p, P.shape, T))),
                                                                                                    term(k - 1, iright(p, P.shape, T))))),
                                     patterns=[z3.MultiPattern(SP(k, p), unfold_at(k))]))
                ctx.assume(unfold_at(1))
                ex.ghost = {"P": P, "SP": SP, "ST": ST, "subs": subs}
                ex.hooks = {}
                return {"poly": P, "args": tuple(subs[v] for v in args), "kwargs": {n: subs[v] for n, v in kwargs.items()}}

            def check(out):
                ex, ctx = out.ex, out.ctx
                g = ex.ghost
                P, SP, ST = g["P"], g["SP"], g["ST"]
                ex.oblige(f"raises.nothing[{out.exc}:{out.value}]" if out.kind == "raise" else "raises.nothing", z3.BoolVal(out.kind == "return"), "post")
                if out.kind != "return":
                    return
                r = out.value
                src = getattr(r, "tonumpy_of", None) if isinstance(r, Arr) else r
                ok = isinstance(src, Poly)
                ex.oblige("post.polynomial_or_its_constant_array", z3.BoolVal(ok), "post")
                if not ok:
                    return
                ex.oblige("post.shape_is_poly_shape_plus_broadcast_argument_shape", src.shape == ST, "post")
                ex.oblige("post.value_is_sum_over_terms_of_coefficient_times_argument_powers",
                          ctx.forall_idx(lambda p: src.val(p) == SP(P.N, p), ST), "post",
                          note="element (i ++ j): sum_t C(t, i) * prod_d a_d[j] ** E(t, d) in the polynomial ring")
            loops = self._loops_poly(D)
            yield Case(label, make_env, check, loops=loops)

    def _array_cases(self):
        """numeric evaluation at ARRAY points: result[i ++ j] = sum_t C(t, i) * prod_d a_d[j]**E(t, d), shape poly.shape + broadcast(arg shapes)"""
        from engine.logic import unfold_at, bshape, bok, proj
        from engine.polymodel import concat_axioms, ileft, iright
        for label, D, args, kwargs, kinds in (("D1.array_positional", 1, (0,), {}, "a"), ("D2.arrays_positional", 2, (0, 1), {}, "aa"),
                                              ("D2.arrays_mixed", 2, (0,), {"q1": 1}, "aa"),
                                              ("D2.array_and_number", 2, (0, 1), {}, "an"), ("D2.number_and_array_keyword", 2, (), {"q0": 0, "q1": 1}, "na")):
            def make_env(ex, D=D, args=args, kwargs=kwargs, kinds=kinds):
                ctx = ex.ctx
                for a in shape_axioms(ctx) + extra_shape_axioms(ctx) + mono_axioms(ctx) + order_axioms(ctx) + eok_axioms() + concat_axioms(ctx):
                    ctx.assume(a)
                P = Poly(ctx, "poly", D=D, region=Region("caller", "poly"))
                ctx.assume(P.wf(ctx))
                ctx.assume(ctx.forall_range(0, P.N, lambda t: keyok(P.row(t), P.D)))
                P.concrete_names = list(NAMES[:D])
                for d in range(D):
                    ctx.assume(nat(P.names, d) == as_name(ex, NAMES[d]))
                pts = []
                for d in range(D):
                    if kinds[d] == "n":
                        pts.append(ctx.real(f"point{d}"))        # a plain number
                        continue
                    f = ctx.func(f"point{d}", Idx, R)
                    pts.append(Arr(ctx.const(f"shape_point{d}", Shp), lambda i, f=f: f(i), "real", ctx.const(f"dt_point{d}", DT),
                                   Region("caller", f"point{d}")))
                arrs = [a for a in pts if isinstance(a, Arr)]
                T = arrs[0].shape
                for a in arrs[1:]:
                    ctx.assume(bok(T, a.shape))                 # precondition: the argument shapes broadcast
                    T = bshape(T, a.shape)
                ST = sconcat(P.shape, T)
                xr = z3.Real(ctx.fresh("x"))
                ctx.assume(z3.ForAll([xr], rpow(xr, 0) == 1))
                SA = ctx.func("SA", I, Idx, R)
                k, p = z3.Int(ctx.fresh("k")), z3.Const(ctx.fresh("p"), Idx)

                def term(t, j):
                    out = z3.RealVal(1)
                    for d in range(D):
                        if not isinstance(pts[d], Arr):
                            out = out * rpow(pts[d], expo(P.row(t), d))
                            continue
                        jd = j if z3.eq(pts[d].shape, T) else proj(j, T, pts[d].shape)
                        out = out * rpow(pts[d].elem(jd), expo(P.row(t), d))
                    return out
                ctx.assume(z3.ForAll([p], SA(0, p) == 0))
                ctx.assume(z3.ForAll([k, p], z3.Implies(k >= 1, SA(k, p) == SA(k - 1, p) + P.C(k - 1, ileft(p, P.shape, T)) * term(k - 1, iright(p, P.shape, T))),
                                     patterns=[z3.MultiPattern(SA(k, p), unfold_at(k))]))
                ctx.assume(unfold_at(1))
                ex.ghost = {"P": P, "SA": SA, "ST": ST, "T": T}
                ex.hooks = {}
                return {"poly": P, "args": tuple(pts[v] for v in args), "kwargs": {n: pts[v] for n, v in kwargs.items()}}

            def check(out):
                ex, ctx = out.ex, out.ctx
                g = ex.ghost
                P = g["P"]
                ex.oblige(f"raises.nothing[{out.exc}:{out.value}]" if out.kind == "raise" else "raises.nothing", z3.BoolVal(out.kind == "return"), "post")
                if out.kind != "return":
                    return
                r = out.value
                ok = isinstance(r, Arr)
                ex.oblige("post.plain_array_for_numeric_points", z3.BoolVal(ok), "post")
                if not ok:
                    return
                ex.oblige("post.shape_is_poly_shape_plus_broadcast_point_shape", r.shape == g["ST"], "post")
                ex.oblige("post.value_is_sum_over_terms_of_coefficient_times_point_powers",
                          ctx.forall_idx(lambda p: r.elem(p) == g["SA"](P.N, p), g["ST"]), "post",
                          note="element (i ++ j): sum over ALL terms of C(t, i) * prod_d a_d[j] ** E(t, d)")
            yield Case(label, make_env, check, loops=self._loops_array(D))

    def _numeric_cases(self):
        for label, D, args, kwargs, outcome in binding_cases():
            def make_env(ex, D=D, args=args, kwargs=kwargs):
                ctx = ex.ctx
                for a in shape_axioms(ctx) + extra_shape_axioms(ctx) + mono_axioms(ctx) + order_axioms(ctx) + eok_axioms():
                    ctx.assume(a)
                P = Poly(ctx, "poly", D=D, region=Region("caller", "poly"))
                ctx.assume(P.wf(ctx))
                ctx.assume(ctx.forall_range(0, P.N, lambda t: keyok(P.row(t), P.D)))
                P.concrete_names = list(NAMES[:D])
                for d in range(D):
                    ctx.assume(nat(P.names, d) == as_name(ex, NAMES[d]))
                pts = [ctx.real(f"point{d}") for d in range(D)]
                other = ctx.real("other_value")
                val = lambda v: None if v is None else (other if v == "x" else pts[v])
                # ghost: S(k, i) = sum_{t<k} C(t,i) * prod_d rpow(point_d, E(t,d))
                S = ctx.func("S", I, Idx, R)
                k, i = z3.Int(ctx.fresh("k")), z3.Const(ctx.fresh("i"), Idx)

                def T(t):
                    out = z3.RealVal(1)
                    for d in range(D):
                        out = out * rpow(pts[d], expo(P.row(t), d))
                    return out
                xr = z3.Real(ctx.fresh("x"))
                ctx.assume(z3.ForAll([xr], rpow(xr, 0) == 1))              # x ** 0 == 1 (also 0 ** 0, as in Python and numpy)
                ctx.assume(z3.ForAll([i], S(0, i) == 0))
                from engine.logic import unfold_at
                ctx.assume(z3.ForAll([k, i], z3.Implies(k >= 1, S(k, i) == S(k - 1, i) + P.C(k - 1, i) * T(k - 1)),
                                     patterns=[z3.MultiPattern(S(k, i), unfold_at(k))]))
                ctx.assume(unfold_at(1))
                ex.ghost = {"P": P, "S": S, "pts": pts}
                return {"poly": P, "args": tuple(val(v) for v in args),
                        "kwargs": None if kwargs is None else {n: val(v) for n, v in kwargs.items()}}

            def check(out, outcome=outcome):
                ex, ctx = out.ex, out.ctx
                P, S = ex.ghost["P"], ex.ghost["S"]
                if outcome == "TypeError":
                    ex.oblige("raises.TypeError_for_a_name_given_twice_or_unknown",
                              z3.BoolVal(out.kind == "raise" and out.exc == "TypeError"), "post")
                    return
                ex.oblige(f"raises.nothing[{out.exc}]" if out.kind == "raise" else "raises.nothing", z3.BoolVal(out.kind == "return"), "post")
                if out.kind != "return":
                    return
                r = out.value
                ok = isinstance(r, Arr)
                ex.oblige("post.plain_array_for_numeric_points", z3.BoolVal(ok), "post")
                if not ok:
                    return
                ex.oblige("post.shape_is_poly_shape_plus_point_shape", r.shape == P.shape, "post")
                ex.oblige("post.value_is_sum_over_terms_of_coefficient_times_point_powers",
                          ctx.forall_idx(lambda i: r.elem(i) == S(P.N, i), P.shape), "post")
            yield Case(label, make_env, check, loops=self._loops(D))

    def apply(self, ex, args, kw, node):
        raise U("call as a callee", node)


CONTRACTS = [Call()]       # numpoly.polynomial: contracts/polynomial.py
