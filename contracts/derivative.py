"""Contract for numpoly.poly_function.derivative.derivative (property C06; C15 through the symbolic option map,
C17 through the frame obligations at the in-place decrement, C20 through the storability obligation).

Specification level: pdiff(v, x) is the formal partial derivative of the abstract polynomial value v with
respect to the indeterminate named x (an operation of the abstract commutative ring PV; its laws - linearity,
product rule, commuting partials - are those of MvPolynomial.pderiv and are not re-proved here).

Bridge B7 (definition of pdiff at coefficient level, assumed; every use is preceded by obligations that
establish its premises on the real code):
    if r is built from exactly the terms t of p with expo(row_p(t), d) > 0, each with exponent row
    row_p(t) - e_d and coefficient expo(row_p(t), d) * C_p(t, .)  (or from the single zero term when there is
    no such t), under p's names, then  val(r, i) = pdiff(val(p, i), name_p(d)).
"""
from __future__ import annotations
import z3
from engine.contract import Contract, Case
from engine.sx import RaiseSig
from engine import values as V
from engine.values import U
from engine.logic import I, Idx, B, R, Shp, DT, PV, Name, Mono, inshape, expo, mzero, bshape
from engine.polymodel import (Poly, Arr, ExpMat, NamesV, Region, nlen, nat, shape_axioms, mono_axioms)
from engine.sortmodel import order_axioms
from contracts.construct import keyok, eok_axioms
from contracts.align import extra_shape_axioms
from contracts.baseclass import own_poly

pdiff = z3.Function("pdiff", PV, Name, PV)


class Derivative(Contract):
    name = "numpoly.derivative"
    relpath = "numpoly/poly_function/derivative.py"
    func = "derivative"
    properties = ("C06", "C15", "C17", "C20")
    assumptions = ("B7: coefficient-level definition of the formal partial derivative (see module docstring)",
                   "A1: coefficient arithmetic is mathematical; the dtype of exponent*coefficient is numpy's promotion (not specified)",
                   "designation kinds enumerated: position, name, indeterminate polynomial; one or two successive variables; "
                   "positions are non-negative (negative positions: bounded check only)")

    KINDS = (("position",), ("name",), ("polynomial",), ("position", "name"), ("name", "name"), ("position", "position"), ())
    DEEP_KINDS = ()

    def cases(self):
        from engine.contract import deep
        for kinds in self.KINDS + (self.DEEP_KINDS if deep() else ()):
            label = "by=" + ("+".join(kinds) if kinds else "nothing")

            def make_env(ex, kinds=kinds):
                ctx = ex.ctx
                P = own_poly(ex, "poly", allocation=False)
                for a in extra_shape_axioms(ctx):
                    ctx.assume(a)
                ex.P = P
                ex.ghost = {"cur": P, "steps": [], "designated": []}
                diffvars = []
                for k, kind in enumerate(kinds):
                    if kind == "position":
                        v = ctx.int(f"position{k}")
                        ctx.assume(z3.And(0 <= v, v < P.D))       # precondition: a valid position among the argument's indeterminates
                        ex.ghost["designated"].append(("position", v))
                    elif kind == "name":
                        v = ctx.const(f"name{k}", Name)
                        ex.ghost["designated"].append(("name", v))
                    else:
                        # an indeterminate polynomial: exactly one live term, x_{d0}^1 (any non-zero coefficient)
                        q = Poly(ctx, "diffvar", region=Region("caller", "diffvar"))
                        ctx.assume(q.wf(ctx))
                        ctx.assume(ctx.forall_range(0, q.N, lambda t: keyok(q.row(t), q.D)))
                        d0, t0 = ctx.int("d0"), ctx.int("t0")
                        # (every other stored term has all-zero coefficients - also the constant term, which the cleaner keeps
                        # even when it is zero: (q0+1)-1 is such a polynomial)
                        live = lambda t: z3.Not(ctx.forall_idx(lambda i: q.C(t, i) == 0, q.shape))
                        ctx.assume(z3.And(0 <= d0, d0 < q.D, 0 <= t0, t0 < q.N, live(t0)))
                        ctx.assume(ctx.forall_range(0, q.N, lambda t: z3.Implies(live(t), t == t0)))
                        ctx.assume(ctx.forall_range(0, q.D, lambda d: expo(q.row(t0), d) == z3.If(d == d0, 1, 0)))
                        v = q
                        ex.ghost["designated"].append(("polynomial", nat(q.names, d0)))
                        ex.ghost["q"] = q
                    diffvars.append(v)
                env = {"poly": P, "diffvars": tuple(diffvars)}
                ex.env_ref = env

                def after_from_attributes(ex_, r):
                    self._step(ex_, r)

                def after_align(ex_, res):
                    ex_.ghost["cur"] = res[0]
                ex.hooks = {"after_from_attributes": after_from_attributes, "after_align": after_align}
                return env

            def check(out, kinds=kinds):
                self._check(out, kinds)
            yield Case(label, make_env, check)

    # ------------------------------------------------------------------ ghost step at the from_attributes call
    def _step(self, ex, r):
        """Premises of bridge B7 for one differentiation step, posed as obligations where the real code hands the
        differentiated attributes to the constructor; then the bridge's conclusion is assumed."""
        ctx = ex.ctx
        env = ex.env_ref
        cur = ex.ghost["cur"]
        k = len(ex.ghost["steps"])
        idx = env.get("idx")
        fa = r.from_attrs
        E, C = fa["E"], fa["C"]
        L = f"step{k + 1}"
        okidx = isinstance(idx, (int, z3.ArithRef)) and not isinstance(idx, bool)
        ex.oblige(f"{L}.variable_position_resolved", z3.BoolVal(okidx), "post")
        if not okidx:
            return
        ex.oblige(f"{L}.position_in_range", z3.And(0 <= idx, idx < cur.D), "post")
        names_ok = (isinstance(fa["names"], NamesV) and (fa["names"].term is cur.names or z3.is_true(z3.simplify(fa["names"].term == cur.names))))
        ex.oblige(f"{L}.names_are_those_of_the_polynomial", z3.BoolVal(bool(names_ok)) if isinstance(names_ok, bool) else names_ok, "post",
                  note="the derivative keeps the indeterminate tuple of the operand")
        # the products exponent*coefficient are computed in numpy's promoted type (A1); handing the constructor an explicit dtype
        # would cast them - possibly back into a type that cannot hold them.  The constructor takes the common type by itself.
        ex.oblige(f"{L}.no_cast_of_the_computed_coefficients", z3.BoolVal(fa["dtype"] is None), "post",
                  note="C06/C12: exponent*coefficient must not be cast into another (possibly narrower) dtype")
        Cs = V.as_seq(ex, C) if not isinstance(C, list) else None
        live = lambda t: expo(cur.row(t), idx) > 0
        if isinstance(C, list):
            # fallback branch: no term involves the variable
            ok = len(C) == 1 and isinstance(C[0], Arr) and isinstance(E, ExpMat)
            ex.oblige(f"{L}.zero.single_zero_term", z3.BoolVal(ok), "post")
            if not ok:
                return
            ex.oblige(f"{L}.zero.no_term_involves_the_variable", ctx.forall_range(0, cur.N, lambda t: z3.Not(live(t))), "post",
                      note="the zero polynomial is returned only when every term is free of the variable")
            ex.oblige(f"{L}.zero.row_and_coefficient", z3.And(
                E.n == 1, E.D == cur.D, mzero(E.row(0), cur.D), C[0].shape == cur.shape,
                ctx.forall_idx(lambda i: C[0].elem(i) == 0, cur.shape)), "post")
        else:
            s = getattr(C, "selection", None)
            ok = s is not None and isinstance(E, ExpMat)
            ex.oblige(f"{L}.terms.selection_of_the_operand_terms", z3.BoolVal(ok), "post")
            if not ok:
                return
            M, sel, selidx = s.M, s.sel, s.selidx
            ex.oblige(f"{L}.terms.one_row_per_coefficient", z3.And(E.n == M, Cs.n == M, E.D == cur.D, M >= 1), "post")
            ex.oblige(f"{L}.terms.only_terms_involving_the_variable", ctx.forall_range(0, M, lambda j: z3.And(
                0 <= sel(j), sel(j) < cur.N, live(sel(j)))), "post")
            ex.oblige(f"{L}.terms.every_term_involving_the_variable", ctx.forall_range(0, cur.N, lambda t: z3.Implies(
                live(t), z3.And(0 <= selidx(t), selidx(t) < M, sel(selidx(t)) == t))), "post",
                note="no term of the derivative is lost")
            ex.oblige(f"{L}.terms.exponent_lowered_by_one_in_the_variable_only", ctx.forall_range(0, M, lambda j: ctx.forall_range(
                0, cur.D, lambda d: expo(E.row(j), d) == expo(cur.row(sel(j)), d) - z3.If(d == idx, 1, 0))), "post")
            ex.oblige(f"{L}.terms.coefficient_times_old_exponent", ctx.forall_range(0, M, lambda j: z3.And(
                Cs.item(j).shape == cur.shape, ctx.forall_idx(
                    lambda i: Cs.item(j).elem(i) == z3.ToReal(expo(cur.row(sel(j)), idx)) * cur.C(sel(j), i), cur.shape))), "post")
        # bridge B7
        x = nat(cur.names, idx)
        ctx.assume(ctx.forall_idx(lambda i: r.val(i) == pdiff(cur.val(i), x), cur.shape))
        ctx.assume(r.shape == cur.shape)
        ex.ghost["steps"].append((cur, idx, x, r))

    # ------------------------------------------------------------------ postcondition
    def _check(self, out, kinds):
        ex, ctx = out.ex, out.ctx
        P = ex.P
        if out.kind == "raise":
            # a name that is not an indeterminate of the polynomial: tuple.index raises ValueError
            # a name (or indeterminate polynomial) that is not an indeterminate of the polynomial: tuple.index raises ValueError
            legit = out.exc == "ValueError" and ("name" in kinds or "polynomial" in kinds)
            ex.oblige(f"raises.only_for_an_unknown_name[{out.exc}:{out.value}]", z3.BoolVal(legit), "post")
            return
        r = out.value
        ok = isinstance(r, Poly)
        ex.oblige("post.returns_polynomial", z3.BoolVal(ok), "post")
        if not ok:
            return
        steps = ex.ghost["steps"]
        ex.oblige("post.one_differentiation_per_variable", z3.BoolVal(len(steps) == len(kinds)), "post")
        if len(steps) != len(kinds):
            return
        if not kinds:
            ex.oblige("post.no_variables_returns_the_polynomial", z3.BoolVal(r is P), "post")
            return
        ex.oblige("post.shape", r.shape == P.shape, "post")
        # designation: the variable differentiated in step k is the one designated by the k-th argument
        for k, ((kind, want), (cur, idx, x, _)) in enumerate(zip(ex.ghost["designated"], steps)):
            if kind == "position":
                # a position designates an indeterminate of the ARGUMENT (in every step, whatever the alignment after an earlier
                # step did to the order of the names)
                ex.oblige(f"post.variable[{k}].is_the_one_at_the_given_position", x == nat(P.names, want), "post")
                if k == 0:
                    ex.oblige(f"post.variable[{k}].position_used_as_given", idx == want, "post")
            else:
                ex.oblige(f"post.variable[{k}].is_the_designated_name", x == want, "post")
        # value: successive formal partial derivatives
        def chain(i):
            v = P.val(i)
            for (_, _, x, _) in steps:
                v = pdiff(v, x)
            return v
        ex.oblige("post.value_is_the_successive_formal_partial_derivative",
                  ctx.forall_idx(lambda i: r.val(i) == chain(i), P.shape), "post")
        ex.oblige("post.fresh", z3.BoolVal(r.region.owner == "fresh"), "post")

    def apply(self, ex, args, kw, node):
        P = args[0]
        if not isinstance(P, Poly) or kw:
            raise U("derivative of non-ndpoly", node)
        ctx = ex.ctx
        cur = P
        for v in args[1:]:
            if isinstance(v, z3.ExprRef) and v.sort() == Name:
                x = v
                site = ex.site("derivative")
                ex.oblige(f"pre({site}).name_is_an_indeterminate",
                          z3.Not(ctx.forall_range(0, nlen(cur.names), lambda d: nat(cur.names, d) != x)), "precondition", node)
            else:
                raise U("derivative designation kind at a call site", node)
            r = Poly(ctx, ctx.fresh("d"), shape=cur.shape, region=Region("fresh", "derivative"))
            r.owndata = z3.BoolVal(True)
            ctx.assume(r.wf(ctx))
            ctx.assume(ctx.forall_range(0, r.N, lambda t, r=r: keyok(r.row(t), r.D)))
            ctx.assume(ctx.forall_idx(lambda i, r=r, cur=cur, x=x: r.val(i) == pdiff(cur.val(i), x), cur.shape))
            r.derivative_of = (cur, x)
            cur = r
        return cur


class Gradient(Contract):
    name = "numpoly.gradient"
    relpath = "numpoly/poly_function/derivative.py"
    func = "gradient"
    properties = ("C06",)
    assumptions = ("B6 (stacking whole elements), B7; contract of derivative (proved)",)

    def cases(self):
        def make_env(ex):
            P = own_poly(ex, "poly", allocation=False)
            for a in extra_shape_axioms(ex.ctx):
                ex.ctx.assume(a)
            ex.P = P
            return {"poly": P}

        def check(out):
            from engine.polymodel import prepend, at0
            ex, ctx = out.ex, out.ctx
            P = ex.P
            ex.oblige(f"raises.nothing[{out.exc}:{out.value}]" if out.kind == "raise" else "raises.nothing", z3.BoolVal(out.kind == "return"), "post")
            if out.kind != "return":
                return
            r = out.value
            pcs = getattr(r, "pieces", None)
            ok = isinstance(r, Poly) and pcs is not None
            ex.oblige("post.stack_of_one_array_per_indeterminate", z3.BoolVal(ok), "post")
            if not ok:
                return
            ex.oblige("post.shape_is_D_plus_operand_shape", r.shape == prepend(P.D, P.shape), "post")
            d0 = ctx.int("d")                       # an arbitrary indeterminate position
            ctx.assume(z3.And(0 <= d0, d0 < P.D))
            src = pcs["link"](d0)
            dv = getattr(src, "derivative_of", None)
            ex.oblige("post.slice_d_is_the_derivative_by_the_dth_name", z3.BoolVal(dv is not None and dv[0] is P) if dv is None or dv[0] is not P
                      else dv[1] == nat(P.names, d0), "post")
            ex.oblige("post.value_first_partials_in_indeterminate_order", ctx.forall_idx(
                lambda i: r.val(at0(d0, i)) == pdiff(P.val(i), nat(P.names, d0)), P.shape), "post",
                note="for an arbitrary position d: slice d holds the partial derivative by the d-th indeterminate")
        yield Case("", make_env, check)

    def apply(self, ex, args, kw, node):
        """gradient(p) at a call site: the postcondition proved above for an arbitrary slice d, for all slices; the
        indeterminate tuple of the result is the operand's when the `retain_names` option is in force at the call (N1)."""
        from engine.polymodel import prepend, at0
        from engine.optmodel import ovbool, okey
        from contracts.option import get_state
        P = args[0] if args else kw.get("poly")
        if not isinstance(P, Poly) or len(args) + len(kw) != 1:
            raise U("gradient of this operand at a call site", node)
        ctx = ex.ctx
        rn = ovbool(get_state(ex).cur.val[okey("retain_names")])
        ctx.option_atoms.add("retain_names")
        r = Poly(ctx, ctx.fresh("grad"), shape=prepend(P.D, P.shape), region=Region("fresh", "gradient"))
        r.owndata = z3.BoolVal(True)
        ctx.assume(r.wf(ctx))
        ctx.assume(ctx.forall_range(0, r.N, lambda t: keyok(r.row(t), r.D)))
        d = z3.Int(ctx.fresh("d"))
        i = z3.Const(ctx.fresh("i"), Idx)
        ctx.assume(z3.ForAll([d, i], z3.Implies(z3.And(0 <= d, d < P.D, inshape(i, P.shape)),
                                                r.val(at0(d, i)) == pdiff(P.val(i), nat(P.names, d))), patterns=[r.val(at0(d, i))]))
        ctx.assume(z3.Implies(rn, z3.And(r.names == P.names, r.D == P.D)))
        r.gradient_of = (P, rn)
        return r


class Hessian(Contract):
    """hessian(p): gradient of the gradient, both taken while `retain_names=True` is in force (so that the inner gradient keeps
    every indeterminate for the outer one to differentiate by), and the caller's option set back in place afterwards."""
    name = "numpoly.hessian"
    relpath = "numpoly/poly_function/derivative.py"
    func = "hessian"
    properties = ("C06", "C14", "C15")
    assumptions = ("contract of gradient (proved for an arbitrary slice; used for all slices)",
                   "N1: with retain_names=True the gradient has the operand's indeterminate tuple (its slices are aligned with the "
                   "operand by derivative, concatenate keeps the aligned names when nothing is pruned) - assumed, checked by the "
                   "bounded C06 clauses",
                   "contract of global_options as a context manager (proved: C14)")

    def cases(self):
        def make_env(ex):
            from contracts.option import get_state
            P = own_poly(ex, "poly", allocation=False)
            for a in extra_shape_axioms(ex.ctx):
                ex.ctx.assume(a)
            ex.P = P
            ex.st = get_state(ex)
            return {"poly": P}

        def check(out):
            from engine.polymodel import prepend, at0
            ex, ctx = out.ex, out.ctx
            P = ex.P
            ex.oblige(f"raises.nothing[{out.exc}:{out.value}]" if out.kind == "raise" else "raises.nothing", z3.BoolVal(out.kind == "return"), "post")
            ex.oblige("post.option_set_of_the_caller_restored", ex.st.unchanged(ctx), "post",
                      note="C14/C15: hessian changes an option for its own computation only")
            if out.kind != "return":
                return
            r = out.value
            g2 = getattr(r, "gradient_of", None)
            g1 = getattr(g2[0], "gradient_of", None) if g2 else None
            ok = g1 is not None and g1[0] is P
            ex.oblige("post.gradient_of_the_gradient_of_the_operand", z3.BoolVal(ok), "post")
            if not ok:
                return
            ex.oblige("post.inner_gradient_taken_with_retain_names", g1[1], "post",
                      note="otherwise indeterminates that drop out of the first derivatives are lost to the second differentiation")
            ex.oblige("post.outer_gradient_taken_with_retain_names", g2[1], "post")
            ex.oblige("post.shape_is_D_D_plus_operand_shape", r.shape == prepend(P.D, prepend(P.D, P.shape)), "post")
            d1, d2 = ctx.int("d1"), ctx.int("d2")
            ctx.assume(z3.And(0 <= d1, d1 < P.D, 0 <= d2, d2 < P.D))
            ex.oblige("post.value_second_partials_in_indeterminate_order", ctx.forall_idx(
                lambda i: r.val(at0(d1, at0(d2, i))) == pdiff(pdiff(P.val(i), nat(P.names, d2)), nat(P.names, d1)), P.shape), "post",
                note="entry (d1, d2) is the second partial derivative by the d2-th and then the d1-th indeterminate")
        yield Case("", make_env, check)

    def apply(self, ex, args, kw, node):
        raise U("hessian as a callee", node)


CONTRACTS = [Derivative(), Gradient(), Hessian()]
