"""Contracts for numpoly/poly_function/divide/ (property C05).

poly_divmod is verified at the level of abstract polynomial values (PV, a commutative ring: the ring axioms
below are those of MvPolynomial and are hypotheses of the specification domain, certified in Mathlib):

    loop invariant    dividend0_i  =  quotient_i * divisor0_i  +  dividend__i          for every element i
                      divisor_i = divisor0_i,  all three arrays have the common broadcast shape,
                      dividend_ and divisor stay aligned (precondition of get_division_candidate)
    postcondition     the same identity for the returned pair, relative to the (broadcast) arguments.

What one iteration does to the values comes from the contracts of add / subtract / where / multiply (value level)
and get_division_candidate; that the "force the cancelled coefficient to exact zero" write does not change
the polynomial denoted is assumption B8 (in exact arithmetic that coefficient IS zero; the write only removes
floating-point residue) - it is applied in an explicit hook at that write, every other coefficient write
forgets the abstract value.  Termination and the clauses that rest on it (constant divisors, exact multiples,
degree of the remainder) are NOT proved: bounded run-time check with iteration counter and state-repeat detection.
"""
from __future__ import annotations
import z3
from engine.contract import Contract, Case
from engine.sx import LoopSpec, PathEnd
from engine import values as V
from engine.values import U
from engine.logic import I, Idx, B, R, Shp, DT, PV, Mono, Name, inshape, expo, bshape, bok, proj, ndim
from engine.polymodel import (Poly, Arr, MonoRow, NamesV, KeyTok, Region, Names, nlen, shape_axioms, mono_axioms, shp0, the_idx,
                              ravel_shape, dt_float)
from engine.sortmodel import order_axioms
from contracts.align import sym_polys, aligned_family
from contracts.construct import keyok
from contracts.dispatchfn import padd, psub, pneg, pmul

pzero = z3.Const("pzero", PV)
pconst = z3.Function("pconst", R, PV)             # constant polynomial
pmono = z3.Function("pmono", Names, Mono, PV)     # monomial  prod_d names[d] ** expo(m, d)


def ring_axioms(ctx):
    x, y, z = (z3.Const(ctx.fresh(n), PV) for n in "xyz")
    return [z3.ForAll([x, y], padd(x, y) == padd(y, x)),
            z3.ForAll([x, y, z], padd(padd(x, y), z) == padd(x, padd(y, z))),
            z3.ForAll([x, y], pmul(x, y) == pmul(y, x)),
            z3.ForAll([x, y, z], pmul(padd(x, y), z) == padd(pmul(x, z), pmul(y, z))),
            z3.ForAll([x], padd(x, pzero) == x),
            z3.ForAll([x], pmul(x, pzero) == pzero),
            z3.ForAll([x, y], psub(x, y) == padd(x, pneg(y))),
            z3.ForAll([x], padd(x, pneg(x)) == pzero),
            pconst(z3.RealVal(0)) == pzero]


def valof(ex, v, i, shape):
    """abstract value at position i (of `shape`) of an operand: polynomial, numeric array or number"""
    if isinstance(v, Poly):
        same = z3.simplify(v.shape == shape)
        return v.val(i) if z3.is_true(same) else v.val(proj(i, shape, v.shape))
    if isinstance(v, Arr):
        e = v.elem(i if z3.is_true(z3.simplify(v.shape == shape)) else proj(i, shape, v.shape))
        from engine.polymodel import _num
        return pconst(_num(e))
    from engine.polymodel import scalar_of
    s = scalar_of(v)
    if s is not None and not isinstance(s, z3.BoolRef):
        return pconst(s)
    raise U("operand kind in polynomial arithmetic")


def opshape(v):
    if isinstance(v, (Poly, Arr)):
        return v.shape
    return shp0


class ValueLevel(Contract):
    """ASSUMED value-level contract of a ring operation that is not yet verified from its source
    (multiply: compiled kernel + fallback loop, bounded under C01): broadcast shape, element-wise ring operation."""
    properties = ("C01",)

    def __init__(self, fname, op, relname=None):
        self.func, self.name, self.op = fname, f"numpoly.{fname}", op
        self.relpath = f"numpoly/array_function/{relname or fname}.py"

    def cases(self):
        return iter(())

    def apply(self, ex, args, kw, node):
        if "**" in kw and not (isinstance(kw["**"], dict) and not kw["**"]):
            raise U(f"{self.func} with symbolic keywords", node)
        if set(kw) - {"**"}:
            raise U(f"{self.func} with keywords", node)
        a, b = args
        ctx = ex.ctx
        site = ex.site(self.func)
        sa, sb = opshape(a), opshape(b)
        ex.oblige(f"pre({site}).shapes_broadcast", bok(sa, sb), "precondition", node)
        shape = sa if z3.is_true(z3.simplify(sa == sb)) else bshape(sa, sb)
        r = Poly(ctx, ctx.fresh(self.func), shape=shape, region=Region("fresh", self.func))
        r.owndata = z3.BoolVal(True)
        ctx.assume(r.wf(ctx))
        ctx.assume(ctx.forall_range(0, r.N, lambda t: keyok(r.row(t), r.D)))
        ctx.assume(ctx.forall_idx(lambda i: r.val(i) == self.op(valof(ex, a, i, shape), valof(ex, b, i, shape)), shape))
        return r


class IndetPower:
    """divisor.indeterminants ** exponent_row : the vector (x_d ** e_d)_d"""

    def __init__(self, poly, row):
        self.poly, self.row = poly, row


class Power(Contract):
    """ASSUMED, only in the form used by the division loop: indeterminants ** row."""
    name, func, relpath, properties = "numpoly.power", "power", "numpoly/array_function/power.py", ("C01",)

    def cases(self):
        return iter(())

    def apply(self, ex, args, kw, node):
        a, b = args
        if isinstance(a, Poly) and getattr(a, "indeterminants_of", None) is not None and isinstance(b, MonoRow):
            ex.oblige(f"pre({ex.site('power')}).one_exponent_per_indeterminate", b.D == a.indeterminants_of.D, "precondition", node)
            return IndetPower(a.indeterminants_of, b)
        e = b if isinstance(b, int) and not isinstance(b, bool) else (b if isinstance(b, z3.ArithRef) and b.is_int() else getattr(b, "int_valued", None))
        if isinstance(a, Poly) and e is not None and not kw:
            # scalar non-negative integer exponent (proved from the source: contracts/multiply.py PowerScalar): element-wise power
            from contracts.multiply import ppow
            ctx = ex.ctx
            ex.oblige(f"pre({ex.site('power')}).exponent_not_negative", e >= 0 if not isinstance(e, int) else z3.BoolVal(e >= 0), "precondition", node)
            r = Poly(ctx, ctx.fresh("power"), shape=a.shape, region=Region("fresh", "power"))
            r.owndata = z3.BoolVal(True)
            ctx.assume(r.wf(ctx))
            ctx.assume(ctx.forall_range(0, r.N, lambda t: keyok(r.row(t), r.D)))
            ctx.assume(ctx.forall_idx(lambda i: r.val(i) == ppow(a.val(i), e), a.shape))
            r.power_of = (a, e)
            return r
        raise U("power in this form", node)


class Prod:
    """prod(indeterminants ** row, 0) at a call site (the form the division loop uses): the monomial with that exponent row.
    Assembled from proved contracts - prod(a, 0) is _prod(a, 0) (contracts/multiply.py: ProdWrapper), _prod is the product of
    all slices along the axis in index order (ProdAlongAxis), element d of indeterminants ** row is q_d ** row[d] (Power) - and
    the definition of pmono (bridge B11)."""

    def apply(self, ex, args, kw, node):
        a = args[0]
        axis = kw.get("axis", args[1] if len(args) > 1 else None)
        if isinstance(a, IndetPower) and axis == 0:
            ctx = ex.ctx
            r = Poly(ctx, ctx.fresh("monomial"), shape=shp0, names=a.poly.names, region=Region("fresh", "prod"))
            ctx.assume(r.wf(ctx))
            ctx.assume(r.val(the_idx(shp0)) == pmono(a.poly.names, a.row.m))
            r.monomial_of = a
            return r
        raise U("prod in this form", node)


class Zeros(Contract):
    """numpoly.zeros / numpoly.ones (shape, dtype, order): the constant polynomial array built from numpy.zeros / numpy.ones
    (shape, dtype, order) - every parameter forwarded, the result is polynomial(<that array>), whose value is the constant 0 / 1
    everywhere (B10)."""
    properties = ("C09", "C05")
    positional = ("shape", "dtype", "order")

    def __init__(self, fname="zeros", value=0):
        self.func, self.name, self.value = fname, f"numpoly.{fname}", value
        self.relpath = f"numpoly/array_function/{fname}.py"

    def cases(self):
        def make_env(ex):
            from engine.polymodel import ShapeV, DTypeV
            ctx = ex.ctx
            for a in shape_axioms(ctx) + ring_axioms(ctx):
                ctx.assume(a)
            ex.shp = ctx.const("shape_arg", Shp)
            ex.dt = ctx.const("dtype_arg", DT)
            return {"shape": ShapeV(ex.shp), "dtype": DTypeV(ex.dt), "order": "C"}

        def check(out):
            ex, ctx = out.ex, out.ctx
            ex.oblige("raises.nothing", z3.BoolVal(out.kind == "return"), "post")
            if out.kind != "return":
                return
            r = out.value
            src = getattr(r, "constant_of", None)
            ok = isinstance(r, Poly) and isinstance(src, Arr)
            ex.oblige("post.polynomial_of_a_plain_array", z3.BoolVal(ok), "post")
            if not ok:
                return
            ex.oblige("post.shape_and_dtype_forwarded", z3.And(r.shape == ex.shp, src.shape == ex.shp, src.dtype == ex.dt), "post")
            ex.oblige(f"post.array_of_{self.func}", ctx.forall_idx(lambda i: src.elem(i) == self.value, ex.shp), "post")
            ex.oblige("post.value_constant_everywhere", ctx.forall_idx(lambda i: r.val(i) == pconst(z3.RealVal(self.value)), ex.shp), "post")
        yield Case("", make_env, check)

    def apply(self, ex, args, kw, node):
        from engine.polymodel import ShapeV
        shp = args[0]
        if not isinstance(shp, ShapeV) or len(args) > 1 or kw or self.func != "zeros":
            raise U(f"numpoly.{self.func} in this form", node)
        ctx = ex.ctx
        r = Poly(ctx, ctx.fresh("zeros"), shape=shp.term, dtype=dt_float, region=Region("fresh", "zeros"))
        ctx.assume(r.wf(ctx))
        ctx.assume(ctx.forall_idx(lambda i: r.val(i) == pzero, shp.term))
        return r


class LikeFill(Contract):
    """numpoly.zeros_like / ones_like (a, dtype, order, subok, shape): polynomial(numpy.<same>(<one coefficient column of a>, dtype=,
    order=, shape=)) - the constant 0 / 1 array with a's shape and coefficient dtype unless others are requested."""
    properties = ("C09", "C12")
    positional = ("a", "dtype", "order", "subok", "shape")

    def __init__(self, fname, value):
        self.func, self.name, self.value = fname, f"numpoly.{fname}", value
        self.relpath = f"numpoly/array_function/{fname}.py"

    def cases(self):
        for dk in ("none", "given"):
            for sk in ("none", "given"):
                def make_env(ex, dk=dk, sk=sk):
                    from engine.polymodel import ShapeV, DTypeV
                    from contracts.baseclass import own_poly
                    ctx = ex.ctx
                    P = own_poly(ex, "a", allocation=False)
                    for a in ring_axioms(ctx):
                        ctx.assume(a)
                    ex.P = P
                    ex.shp = ctx.const("shape_arg", Shp)
                    ex.dt = ctx.const("dtype_arg", DT)
                    return {"a": P, "dtype": None if dk == "none" else DTypeV(ex.dt), "order": None, "subok": True,
                            "shape": None if sk == "none" else ShapeV(ex.shp)}

                def check(out, dk=dk, sk=sk):
                    ex, ctx = out.ex, out.ctx
                    P = ex.P
                    ex.oblige(f"raises.nothing[{out.exc}]" if out.kind == "raise" else "raises.nothing", z3.BoolVal(out.kind == "return"), "post")
                    if out.kind != "return":
                        return
                    r = out.value
                    src = getattr(r, "constant_of", None)
                    ok = isinstance(r, Poly) and isinstance(src, Arr) and getattr(src, "like_of", None) is not None
                    ex.oblige("post.polynomial_of_a_filled_array", z3.BoolVal(ok), "post")
                    if not ok:
                        return
                    proto = src.like_of[0]
                    ex.oblige("post.prototype_is_a_coefficient_column_of_the_operand", z3.BoolVal(getattr(proto, "colview", (None,))[0] is P), "post")
                    want_shape = P.shape if sk == "none" else ex.shp
                    want_dtype = P.dtype if dk == "none" else ex.dt
                    ex.oblige("post.shape", z3.And(r.shape == want_shape, src.shape == want_shape), "post")
                    ex.oblige("post.dtype", src.dtype == want_dtype, "post", note="the operand's coefficient dtype unless another is requested")
                    ex.oblige("post.filled", ctx.forall_idx(lambda i: src.elem(i) == self.value, want_shape), "post")
                    ex.oblige("post.value_constant_everywhere", ctx.forall_idx(lambda i: r.val(i) == pconst(z3.RealVal(self.value)), want_shape), "post")
                yield Case(f"dtype={dk},shape={sk}", make_env, check)

    def apply(self, ex, args, kw, node):
        raise U(f"{self.func} as a callee", node)


class GetDivisionCandidate(Contract):
    """get_division_candidate(x1, x2): what poly_divmod relies on is proved from the source - it returns None, or
    (idx1, idx2, include, candidate) with valid term positions, include/candidate of the operands' shape,
    exponent row idx1 of x1 >= exponent row idx2 of x2 entry-wise, and on `include`: the divisor coefficient C2[idx2]
    is non-zero and candidate = C1[idx1] / C2[idx2].  (That idx2 is the LEADING term of the divisor, which termination
    rests on, is not part of this contract: bounded check.)"""
    name = "numpoly.get_division_candidate"
    relpath = "numpoly/poly_function/divide/divmod.py"
    func = "get_division_candidate"
    properties = ("C05",)
    positional = ("x1", "x2", "cutoff")

    def _loops(self):
        true = lambda ex, env, k: z3.BoolVal(True)
        nothing = lambda ex, env, k: None

        def inv2(ex, env, k):
            inc, x2, idx2 = env["include2"], ex.inputs[1], env["idx2"]
            if not isinstance(inc, Arr):
                return [("mask", z3.BoolVal(False))]
            return [("shape", inc.shape == x2.shape),
                    ("only_where_the_divisor_coefficient_is_non_zero", ex.ctx.forall_idx(lambda i: z3.Implies(inc.elem(i), x2.C(idx2, i) != 0), x2.shape))]

        def havoc2(ex, env, k):
            f = ex.ctx.func("include2_h", Idx, B)
            env["include2"] = Arr(ex.inputs[1].shape, lambda i: f(i), "bool")
        return {1: LoopSpec(true, nothing, modifies=()), 2: LoopSpec(inv2, havoc2, modifies=("include2", "idx")),
                3: LoopSpec(true, nothing, modifies=())}

    def cases(self):
        def make_env(ex):
            ctx = ex.ctx
            ps0 = sym_polys(ex, 2)
            fam = aligned_family(ex, ps0, base="ops", shape=bshape(ps0[0].shape, ps0[1].shape))
            for q in fam:
                q.region = Region("caller", "operand")
            ctx.assume(ndim(fam[0].shape) >= 1)
            ex.inputs = fam
            ex.cutoff = ctx.real("cutoff")
            return {"x1": fam[0], "x2": fam[1], "cutoff": ex.cutoff}

        def check(out):
            ex, ctx = out.ex, out.ctx
            x1, x2 = ex.inputs
            ex.oblige(f"raises.nothing[{out.exc}:{out.value}]" if out.kind == "raise" else "raises.nothing", z3.BoolVal(out.kind == "return"), "post")
            if out.kind != "return":
                return
            r = out.value
            if r is None:
                return
            ok = isinstance(r, tuple) and len(r) == 4 and isinstance(r[2], Arr) and isinstance(r[3], Arr)
            ex.oblige("post.returns_None_or_a_4_tuple", z3.BoolVal(ok), "post")
            if not ok:
                return
            idx1, idx2, include, candidate = r
            ex.oblige("post.term_positions_valid", z3.And(0 <= idx1, idx1 < x1.N, 0 <= idx2, idx2 < x2.N), "post")
            ex.oblige("post.mask_and_candidate_have_the_operand_shape", z3.And(include.shape == x1.shape, candidate.shape == x1.shape), "post")
            ex.oblige("post.dividend_term_dominates_divisor_term", ctx.forall_range(
                0, x1.D, lambda d: expo(x1.row(idx1), d) >= expo(x2.row(idx2), d)), "post")
            ex.oblige("post.on_the_mask_divisor_coefficient_nonzero_and_candidate_is_the_ratio", ctx.forall_idx(lambda i: z3.Implies(
                include.elem(i), z3.And(x2.C(idx2, i) != 0, candidate.elem(i) == x1.C(idx1, i) / x2.C(idx2, i))), x1.shape), "post")
            ex.oblige("post.mask_and_candidate_are_new_arrays", z3.BoolVal(include.region.owner == "fresh" and candidate.region.owner == "fresh"), "post")
        yield Case("", make_env, check, loops=self._loops())

    def apply(self, ex, args, kw, node):
        x1, x2 = args[0], args[1]
        if not (isinstance(x1, Poly) and isinstance(x2, Poly)) or len(args) > 2 or kw:
            raise U("get_division_candidate in this form", node)
        ctx = ex.ctx
        site = ex.site("get_division_candidate")
        aligned = getattr(x1, "aligned_with", None) is not None and any(q is x2 for q in x1.aligned_with)
        ex.oblige(f"pre({site}).operands_aligned", z3.BoolVal(aligned), "precondition", node,
                  note="the search compares exponent rows and shapes of both operands position by position")
        ex.oblige(f"pre({site}).at_least_one_dimension", ndim(x1.shape) >= 1, "precondition", node)
        if ex.choice(2, "candidate") == 1:
            return None
        idx1, idx2 = ctx.int("idx1"), ctx.int("idx2")
        inc = ctx.func("include", Idx, B)
        cand = ctx.func("candidate", Idx, R)
        ctx.assume(z3.And(0 <= idx1, idx1 < x1.N, 0 <= idx2, idx2 < x2.N))
        ctx.assume(ctx.forall_idx(lambda i: z3.Implies(inc(i), z3.And(
            x2.C(idx2, i) != 0, cand(i) == x1.C(idx1, i) / x2.C(idx2, i))), x1.shape))
        ctx.assume(ctx.forall_range(0, x1.D, lambda d: expo(x1.row(idx1), d) >= expo(x2.row(idx2), d)))
        include = Arr(x1.shape, lambda i: inc(i), "bool")
        candidate = Arr(x1.shape, lambda i: cand(i), "real")
        return (idx1, idx2, include, candidate)


class PolyDivmod(Contract):
    name = "numpoly.poly_divmod"
    relpath = "numpoly/poly_function/divide/divmod.py"
    func = "poly_divmod"
    properties = ("C05", "C17")
    positional = ("dividend", "divisor", "out", "where")
    assumptions = ("PV is a commutative ring (ring axioms; MvPolynomial in Mathlib)",
                   "B8: forcing the cancelled coefficient to exact zero does not change the polynomial denoted (exact arithmetic, A1)",
                   "assumed value-level contracts of multiply, power/prod (monomial), zeros, where and of get_division_candidate",
                   "termination is not proved (bounded check)", "operands given as ndpoly; out=(None, None), where=True, no extra keywords")

    # ------------------------------------------------------------------ loop
    def _loops(self):
        def inv(ex, env, k):
            g = ex.ghost
            S, D0, V0 = g["S"], g["D0"], g["V0"]
            q, d, v = env["quotient"], env["dividend_"], env["divisor"]
            ctx = ex.ctx
            okp = all(isinstance(x, Poly) for x in (q, d, v))
            if not okp:
                return [("polynomial_state", z3.BoolVal(False))]
            aligned = getattr(d, "aligned_with", None) is not None and any(x is v for x in d.aligned_with)
            return [("shapes", z3.And(q.shape == S, d.shape == S, v.shape == S)),
                    ("operands_stay_aligned", z3.BoolVal(aligned)),
                    ("divisor_unchanged", ctx.forall_idx(lambda i: v.val(i) == V0.val(i), S)),
                    ("identity", ctx.forall_idx(lambda i: D0.val(i) == padd(pmul(q.val(i), V0.val(i)), d.val(i)), S))]

        def havoc(ex, env, k):
            ctx = ex.ctx
            S = ex.ghost["S"]
            q = Poly(ctx, ctx.fresh("quotient"), shape=S, region=Region("fresh", "quotient"))
            ctx.assume(q.wf(ctx))
            fam = aligned_family(ex, [object(), object()], base=ctx.fresh("loop"), shape=S)
            env["quotient"], env["dividend_"], env["divisor"] = q, fam[0], fam[1]
        mods = ("candidates", "idx1", "idx2", "include", "candidate", "exponent_diff", "key", "quotient", "dividend_", "divisor")
        return {1: LoopSpec(inv, havoc, modifies=mods)}

    def cases(self):
        for label, zero_d in (("nd", False), ("0d", True)):
            def make_env(ex, zero_d=zero_d):
                ctx = ex.ctx
                ps = sym_polys(ex, 2)
                for a in ring_axioms(ctx):
                    ctx.assume(a)
                ex.inputs = ps
                ex.ghost = {}
                S = bshape(ps[0].shape, ps[1].shape)
                ctx.assume((ndim(S) == 0) if zero_d else (ndim(S) >= 1))

                def after_align(ex_, res):
                    if "D0" not in ex_.ghost:
                        ex_.ghost.update(D0=res[0], V0=res[1], S=res[0].shape)

                def on_write(ex_, poly, t, oldval, oldC, node):
                    # B8 (see module docstring): only at the forced-zero write of the division loop
                    ex_.ghost.setdefault("forced_zero_writes", []).append((poly, t))
                    ex_.ctx.assume(ex_.ctx.forall_idx(lambda i: poly.val(i) == oldval(i), poly.shape))
                ex.hooks = {"after_align": after_align, "on_coefficient_write": on_write}
                return {"dividend": ps[0], "divisor": ps[1], "out": (None, None), "where": True, "kwargs": {}}

            def check(out, zero_d=zero_d):
                self._check(out, zero_d)
            yield Case(label, make_env, check, loops=self._loops())

    def _check(self, out, zero_d):
        ex, ctx = out.ex, out.ctx
        x, y = ex.inputs
        ex.oblige(f"raises.nothing[{out.exc}:{out.value}]" if out.kind == "raise" else "raises.nothing",
                  z3.BoolVal(out.kind == "return"), "post")
        if out.kind != "return":
            return
        res = out.value
        ok = isinstance(res, tuple) and len(res) == 2 and all(isinstance(r, Poly) for r in res)
        ex.oblige("post.returns_quotient_and_remainder", z3.BoolVal(ok), "post")
        if not ok:
            return
        q, r = res
        S = bshape(x.shape, y.shape)
        if zero_d:
            # 0-d operands: the function recurses on the raveled aligned operands and returns element 0 of each result
            oka = all(getattr(p, "item_of", None) is not None for p in (q, r))
            ex.oblige("post.0d.elements_of_the_recursive_result", z3.BoolVal(oka), "post")
            if not oka:
                return
            (fq, xq), (fr, xr) = q.item_of, r.item_of
            rec = getattr(fq, "divmod_of", None)
            ex.oblige("post.0d.recursion_on_the_raveled_aligned_operands", z3.BoolVal(
                rec is not None and rec is getattr(fr, "divmod_of", None) and fq is rec["result"][0] and fr is rec["result"][1]
                and getattr(rec["dividend"], "view_of", None) is ex.ghost.get("D0")
                and getattr(rec["divisor"], "view_of", None) is ex.ghost.get("V0")), "post")
            zero = z3.Const("index:0", xq.term.sort())
            ex.oblige("post.0d.element_zero", z3.And(xq.term == zero, xr.term == zero), "post")
            return
        ex.oblige("post.shapes", z3.And(q.shape == S, r.shape == S), "post")
        ex.oblige("post.identity_dividend_eq_quotient_times_divisor_plus_remainder", ctx.forall_idx(
            lambda i: x.val(proj(i, S, x.shape)) == padd(pmul(q.val(i), y.val(proj(i, S, y.shape))), r.val(i)), S), "post",
            note="element-wise, in exact polynomial arithmetic")
        writes = ex.ghost.get("forced_zero_writes", [])
        ex.oblige("post.results_fresh", z3.BoolVal(q.region.owner == "fresh" and r.region.owner == "fresh"), "post")

    def apply(self, ex, args, kw, node):
        b = dict(zip(self.positional, args))
        b.update({k: v for k, v in kw.items() if k != "**"})
        x, y = b.get("dividend"), b.get("divisor")
        if not (isinstance(x, Poly) and isinstance(y, Poly)):
            raise U("poly_divmod of non-ndpoly operands", node)
        ctx = ex.ctx
        site = ex.site("poly_divmod")
        ex.oblige(f"pre({site}).where_is_True", z3.BoolVal(b.get("where", True) is True), "precondition", node)
        ex.oblige(f"pre({site}).shapes_broadcast", bok(x.shape, y.shape), "precondition", node)
        S = x.shape if z3.is_true(z3.simplify(x.shape == y.shape)) else bshape(x.shape, y.shape)
        q = Poly(ctx, ctx.fresh("q"), shape=S, region=Region("fresh", "poly_divmod quotient"))
        r = Poly(ctx, ctx.fresh("r"), shape=S, region=Region("fresh", "poly_divmod remainder"))
        for p in (q, r):
            p.owndata = z3.BoolVal(True)
            ctx.assume(p.wf(ctx))
            ctx.assume(ctx.forall_range(0, p.N, lambda t, p=p: keyok(p.row(t), p.D)))
        ctx.assume(ctx.forall_idx(lambda i: valof(ex, x, i, S) == padd(pmul(q.val(i), valof(ex, y, i, S)), r.val(i)), S))
        rec = dict(dividend=x, divisor=y, result=(q, r))
        q.divmod_of = r.divmod_of = rec
        return (q, r)


class Component(Contract):
    """poly_divide / poly_remainder: the respective component of poly_divmod on the same arguments."""
    properties = ("C05",)
    positional = ("x1", "x2", "out", "where")

    def __init__(self, fname, which, relname):
        self.func, self.name, self.which = fname, f"numpoly.{fname}", which
        self.relpath = f"numpoly/poly_function/divide/{relname}.py"

    def cases(self):
        def make_env(ex):
            ps = sym_polys(ex, 2)
            ex.inputs = ps
            ex.tok = object()
            return {"x1": ps[0], "x2": ps[1], "out": None, "where": True, "kwargs": {}}

        def check(out):
            ex = out.ex
            ex.oblige("raises.nothing", z3.BoolVal(out.kind == "return"), "post")
            if out.kind != "return":
                return
            r = out.value
            rec = getattr(r, "divmod_of", None)
            ex.oblige("post.component_of_poly_divmod", z3.BoolVal(rec is not None and r is rec["result"][self.which]), "post",
                      note=f"{self.func} returns the {'quotient' if self.which == 0 else 'remainder'} computed by poly_divmod")
            if rec is None:
                return
            ex.oblige("post.same_operands_in_order", z3.BoolVal(rec["dividend"] is ex.inputs[0] and rec["divisor"] is ex.inputs[1]), "post")
        yield Case("", make_env, check)

    def apply(self, ex, args, kw, node):
        raise U(f"{self.func} as a callee", node)


CONTRACTS = [ValueLevel("multiply", pmul), Power(), Zeros("zeros", 0), Zeros("ones", 1), LikeFill("zeros_like", 0), LikeFill("ones_like", 1), GetDivisionCandidate(), PolyDivmod(),
             Component("poly_divide", 0, "divide"), Component("poly_remainder", 1, "remainder")]
