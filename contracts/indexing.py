"""bindex (property C18): the wrapper's flag decoding, proved from the source for every combination of the ordering
letters: graded <=> "G" given, reverse <=> "R" NOT given, result of glexindex reversed <=> "I" given; start, stop,
dimensions and cross_truncation forwarded unchanged.  glexindex itself (grid construction, truncation) is bounded-exhaustive."""
from __future__ import annotations
import itertools
import z3
from engine.contract import Contract, Case
from engine import values as V
from engine.values import U
from contracts.shapefn import Tok


class IndexResult:
    """glexindex(...) or a slice of it"""

    def __init__(self, kw, sliced=None):
        self.kw, self.sliced = kw, sliced

    def sx_getitem(self, ex, idx, node):
        if isinstance(idx, slice) and self.sliced is None:
            return IndexResult(self.kw, idx)
        raise U("index array indexing", node)


class GlexIndexOpaque(Contract):
    """ASSUMED here (decided by the bounded-exhaustive check): glexindex returns the index array for its arguments."""
    name, func, relpath, properties = "numpoly.glexindex", "glexindex", "numpoly/utils/glexindex.py", ("C18",)

    def cases(self):
        return iter(())

    def apply(self, ex, args, kw, node):
        if args:
            raise U("glexindex with positional arguments", node)
        return IndexResult(dict(kw))


class Bindex(Contract):
    name, func, relpath, properties = "numpoly.bindex", "bindex", "numpoly/utils/bindex.py", ("C18",)
    positional = ("start", "stop", "dimensions", "ordering", "cross_truncation")

    def cases(self):
        letters = ["".join(c) for k in range(0, 4) for c in itertools.combinations("GRI", k)] + ["g", "gri", "Ri", "IG"]
        for ordering in letters:
            def make_env(ex, ordering=ordering):
                ex.toks = {p: Tok(p) for p in ("start", "stop", "dimensions", "cross_truncation")}
                env = dict(ex.toks)
                env["ordering"] = ordering
                return env

            def check(out, ordering=ordering):
                ex = out.ex
                ex.oblige("raises.nothing", z3.BoolVal(out.kind == "return"), "post")
                if out.kind != "return":
                    return
                r = out.value
                ok = isinstance(r, IndexResult)
                ex.oblige("post.result_of_glexindex", z3.BoolVal(ok), "post")
                if not ok:
                    return
                up = ordering.upper()
                ex.oblige("post.graded_iff_G", z3.BoolVal(r.kw.get("graded") is ("G" in up)), "post")
                ex.oblige("post.reverse_iff_not_R", z3.BoolVal(r.kw.get("reverse") is ("R" not in up)), "post")
                want = slice(None, None, -1) if "I" in up else slice(None)
                ex.oblige("post.reversed_iff_I", z3.BoolVal(r.sliced == want), "post")
                for p, tok in ex.toks.items():
                    ex.oblige(f"post.parameter_forwarded[{p}]", z3.BoolVal(r.kw.get(p) is tok), "post")
            yield Case(f"ordering={ordering!r}", make_env, check)

    def apply(self, ex, args, kw, node):
        raise U("bindex as a callee", node)


CONTRACTS = [GlexIndexOpaque(), Bindex()]
