"""bindex (property C18): the wrapper's flag decoding, proved from the source for every combination of the ordering
letters: graded <=> "G" given, reverse <=> "R" NOT given, result of glexindex reversed <=> "I" given; start, stop,
dimensions and cross_truncation forwarded unchanged.  glexindex itself (grid construction, truncation) is bounded-exhaustive."""
from __future__ import annotations
import itertools
import z3
from engine.contract import Contract, Case
from engine import values as V
from engine.values import U
from contracts.shapefn import Tok


class IndexResult:
    """glexindex(...) or a slice of it"""

    def __init__(self, kw, sliced=None):
        self.kw, self.sliced = kw, sliced

    def sx_getitem(self, ex, idx, node):
        if isinstance(idx, slice) and self.sliced is None:
            return IndexResult(self.kw, idx)
        raise U("index array indexing", node)


class GlexIndexOpaque(Contract):
    """ASSUMED here (decided by the bounded-exhaustive check): glexindex returns the index array for its arguments."""
    name, func, relpath, properties = "numpoly.glexindex", "glexindex", "numpoly/utils/glexindex.py", ("C18",)

    def cases(self):
        return iter(())

    def apply(self, ex, args, kw, node):
        if args:
            raise U("glexindex with positional arguments", node)
        if getattr(ex, "index_as_matrix", False):
            # (for callers that go on to USE the index array) ASSUMED: an n x dimensions integer matrix of pairwise different,
            # storable (non-negative, bounded) rows - decided by the bounded-exhaustive check of glexindex
            import z3 as _z3
            from engine.polymodel import ExpMat, Region, dt_int, has_duplicate_rows
            from engine.logic import I, Mono
            from contracts.construct import keyok
            ctx = ex.ctx
            D = kw.get("dimensions")
            n = ctx.int("n_indices")
            rf = ctx.func("index_row", I, Mono)
            ctx.assume(n >= 0)
            m = ExpMat(n, D, lambda t: rf(t), Region("fresh"), dt_int)
            ctx.assume(ctx.forall_range(0, n, lambda t: keyok(rf(t), D)))
            ctx.assume(_z3.Not(has_duplicate_rows(ctx, m)))
            m.index_kw = dict(kw)
            hook = getattr(ex, "hooks", {}).get("after_glexindex") if isinstance(getattr(ex, "hooks", None), dict) else None
            if hook:
                hook(ex, m)
            return m
        return IndexResult(dict(kw))


class Bindex(Contract):
    name, func, relpath, properties = "numpoly.bindex", "bindex", "numpoly/utils/bindex.py", ("C18",)
    positional = ("start", "stop", "dimensions", "ordering", "cross_truncation")

    def cases(self):
        letters = ["".join(c) for k in range(0, 4) for c in itertools.combinations("GRI", k)] + ["g", "gri", "Ri", "IG"]
        for ordering in letters:
            def make_env(ex, ordering=ordering):
                ex.toks = {p: Tok(p) for p in ("start", "stop", "dimensions", "cross_truncation")}
                env = dict(ex.toks)
                env["ordering"] = ordering
                return env

            def check(out, ordering=ordering):
                ex = out.ex
                ex.oblige("raises.nothing", z3.BoolVal(out.kind == "return"), "post")
                if out.kind != "return":
                    return
                r = out.value
                ok = isinstance(r, IndexResult)
                ex.oblige("post.result_of_glexindex", z3.BoolVal(ok), "post")
                if not ok:
                    return
                up = ordering.upper()
                ex.oblige("post.graded_iff_G", z3.BoolVal(r.kw.get("graded") is ("G" in up)), "post")
                ex.oblige("post.reverse_iff_not_R", z3.BoolVal(r.kw.get("reverse") is ("R" not in up)), "post")
                want = slice(None, None, -1) if "I" in up else slice(None)
                ex.oblige("post.reversed_iff_I", z3.BoolVal(r.sliced == want), "post")
                for p, tok in ex.toks.items():
                    ex.oblige(f"post.parameter_forwarded[{p}]", z3.BoolVal(r.kw.get(p) is tok), "post")
            yield Case(f"ordering={ordering!r}", make_env, check)

    def apply(self, ex, args, kw, node):
        raise U("bindex as a callee", node)


class UnitRows:
    """numpy.eye(n, dtype=int): n rows, row t being the t-th unit vector of length n"""

    def __init__(self, n):
        self.n = n

    def sx_seq(self, ex):
        from engine.polymodel import Arr, Region, prepend, shp0, first0, dt_int
        n = self.n
        return V.Seq(n, lambda t: Arr(prepend(n, shp0), lambda i: z3.If(first0(i) == t, z3.RealVal(1), z3.RealVal(0)), "real", dt_int, Region("fresh")))

    def sx_iter(self, ex):
        return None

    def sx_len(self, ex):
        return self.n


class TokArray:
    """numpy.array(<opaque user argument>, dtype=int): the same numbers as an integer array"""

    def __init__(self, tok):
        self.array_of = tok


def install_axioms(reg):
    prev_array = reg.fn["numpy.array"]

    @reg.axiom("numpy.array")
    def array(ex, args, kw, node):
        if len(args) == 1 and isinstance(args[0], Tok) and set(kw) <= {"dtype"}:
            return TokArray(args[0])
        return prev_array(ex, args, kw, node)

    @reg.axiom("numpy.eye")
    def eye(ex, args, kw, node):
        if len(args) == 1 and set(kw) <= {"dtype"} and isinstance(args[0], z3.ArithRef):
            return UnitRows(args[0])
        raise U("numpy.eye in this form", node)

    @reg.axiom("numpy.ndarray.__setitem__")
    def nd_setitem(ex, args, kw, node):
        from engine.polymodel import Poly, KeyTok, ValuesView
        p, key, value = args
        if isinstance(p, Poly) and isinstance(key, KeyTok) and key.poly is p:
            return ValuesView(p).sx_setitem(ex, key, value, node)     # field assignment on the raw array
        raise U("ndarray.__setitem__ in this form", node)


class Monomial(Contract):
    """numpoly.monomial(start, stop, dimensions=<names>, ...): one array element per row of glexindex(start, stop, dimensions=len(names),
    graded, reverse, cross_truncation) - all parameters forwarded - namely the monomial with that exponent row: the polynomial has exactly
    those rows, the given names, shape (n,), and coefficient column t is the t-th unit vector (so element k is 1 * names ** row_k and
    nothing else); every coefficient is written (C12)."""
    name, func, relpath, properties = "numpoly.monomial", "monomial", "numpoly/construct/monomial.py", ("C18", "C12")
    positional = ("start", "stop", "dimensions", "cross_truncation", "graded", "reverse", "allocation")
    assumptions = ("assumed contract of glexindex (an n x dimensions matrix of pairwise different storable rows; bounded-exhaustive check)",
                   "dimensions given as a tuple of names or as one name (an integer / None reads the sizes of start and stop: bounded); "
                   "at least one index is generated (n >= 1: an empty index array makes ndpoly create a constant term instead)")

    def _loops(self):
        from engine.sx import LoopSpec
        from engine.polymodel import prepend, shp0, first0

        def inv(ex, env, k):
            p = env.get("poly")
            from engine.polymodel import Poly
            if not isinstance(p, Poly):
                return [("polynomial_allocated", z3.BoolVal(False))]
            n = p.N
            return [("columns_written_so_far_are_unit_vectors", ex.ctx.forall_range(0, k, lambda t: ex.ctx.forall_idx(
                lambda i: z3.And(p.init(t, i), p.C(t, i) == z3.If(first0(i) == t, z3.RealVal(1), z3.RealVal(0))), p.shape)))]

        def havoc(ex, env, k):
            from engine.logic import I, Idx, R, B
            p = env["poly"]
            cf, inf = ex.ctx.func("C_h", I, Idx, R), ex.ctx.func("init_h", I, Idx, B)
            p._C = lambda t, i: cf(t, i)
            p._init = lambda t, i: inf(t, i)
        return {1: LoopSpec(inv, havoc, modifies=("coeff", "key"))}

    def cases(self):
        from engine.polymodel import NamesV, Names, nlen, shape_axioms, mono_axioms, names_distinct, index_axioms
        for kind in ("names", "one_name"):
            def make_env(ex, kind=kind):
                from engine.logic import Name
                from contracts.construct import eok_axioms
                from engine.sortmodel import order_axioms
                ctx = ex.ctx
                for a in shape_axioms(ctx) + mono_axioms(ctx) + order_axioms(ctx) + eok_axioms() + index_axioms(ctx):
                    ctx.assume(a)
                ex.index_as_matrix = True
                ex.toks = {p: Tok(p) for p in ("start", "stop", "cross_truncation", "graded", "reverse")}
                ex.alloc = None
                if kind == "names":
                    ex.nm = ctx.const("names_arg", Names)
                    ctx.assume(z3.And(nlen(ex.nm) >= 1, names_distinct(ctx, ex.nm)))
                    dims = NamesV(ex.nm)
                else:
                    ex.name = ctx.const("name_arg", Name)
                    dims = ex.name
                # precondition of this contract: the index array is not empty (hook: fact added where glexindex returns)
                ex.hooks = {"after_glexindex": lambda ex_, m: ex_.ctx.assume(m.n >= 1)}
                env = dict(ex.toks)
                env.update(dimensions=dims, allocation=None)
                return env

            def check(out, kind=kind):
                from engine.polymodel import Poly, ExpMat, nat, prepend, shp0, first0
                ex, ctx = out.ex, out.ctx
                ex.oblige(f"raises.nothing[{out.exc}]" if out.kind == "raise" else "raises.nothing", z3.BoolVal(out.kind == "return"), "post")
                if out.kind != "return":
                    return
                r = out.value
                src = getattr(r, "built_from_exponents", None)
                ok = isinstance(r, Poly) and isinstance(src, ExpMat) and getattr(src, "index_kw", None) is not None
                ex.oblige("post.rows_are_the_index_array_of_glexindex", z3.BoolVal(ok), "post")
                if not ok:
                    return
                kwi = src.index_kw
                for p_, tok in ex.toks.items():
                    got = kwi.get(p_)
                    got = getattr(got, "array_of", got)
                    ex.oblige(f"post.parameter_forwarded[{p_}]", z3.BoolVal(got is tok), "post")
                D = kwi.get("dimensions")
                if kind == "names":
                    ex.oblige("post.dimensions_is_the_number_of_names", D == nlen(ex.nm) if isinstance(D, z3.ExprRef) else z3.BoolVal(False), "post")
                    ex.oblige("post.names_are_the_given_names", r.names == ex.nm, "post")
                else:
                    ex.oblige("post.dimensions_is_one", z3.BoolVal(D == 1) if isinstance(D, int) else D == 1, "post")
                    ex.oblige("post.the_single_name_is_the_given_one", z3.And(nlen(r.names) == 1, nat(r.names, 0) == ex.name), "post")
                ex.oblige("post.one_element_per_index", z3.And(r.N == src.n, r.shape == prepend(src.n, shp0)), "post")
                ex.oblige("post.element_k_is_the_monomial_with_row_k", ctx.forall_range(0, r.N, lambda t: ctx.forall_idx(
                    lambda i: z3.And(r.init(t, i), r.C(t, i) == z3.If(first0(i) == t, z3.RealVal(1), z3.RealVal(0))), r.shape)), "post",
                    note="coefficient column t is the t-th unit vector: element k has the single term 1 * x ** row_k; nothing unwritten")
            yield Case(f"dimensions={kind}", make_env, check, loops=self._loops())

    def apply(self, ex, args, kw, node):
        raise U("monomial as a callee", node)


CONTRACTS = [GlexIndexOpaque(), Bindex(), Monomial()]
