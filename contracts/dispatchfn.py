"""Contracts for numpoly.dispatch.simple_dispatch and the ufunc/function wrappers built on it
(C01: add, subtract, negative, positive; C10: sum, cumsum, mean; C11: absolute, around, ceil, floor, rint; moveaxis).

simple_dispatch(F, inputs): representation-level postcondition
    out_ has the rows and names of the aligned operands, and for EVERY term t its coefficient column is
    F applied to the operands' columns t (all columns written: definedness), then cleaning.
The value-level reading of "F applied column-wise" (bridge B5): for a function F that acts on coefficient
columns linearly/zero-preservingly, the polynomial with columns F(columns) denotes F-hat of the operands;
for add/subtract/negative/positive F-hat is the ring operation of the abstract values.
"""
from __future__ import annotations
import z3
from engine.contract import Contract, Case
from engine.sx import LoopSpec
from engine import values as V
from engine.values import U
from engine.logic import I, Idx, B, R, DT, PV, Shp, bshape, bok, proj, inshape
from engine.polymodel import Poly, Arr, Region, NamesV, shape_axioms, mono_axioms, simplify_bool
from engine.sortmodel import order_axioms
from contracts.align import sym_polys

padd = z3.Function("padd", PV, PV, PV)
psub = z3.Function("psub", PV, PV, PV)
pneg = z3.Function("pneg", PV, PV)
pmul = z3.Function("pmul", PV, PV, PV)
RING = {"numpy.add": padd, "numpy.subtract": psub, "numpy.negative": pneg, "numpy.positive": (lambda a: a)}


class ColFunc:
    """The `numpy_func` parameter: an arbitrary function of coefficient columns.  Called on the columns
    of term t of each aligned operand (in operand order) it yields the column Fcol(t, .)."""

    def __init__(self, ctx, name="F"):
        self.name = name
        self.Fcol = ctx.func(f"{name}_col", I, Idx, R)
        self.Fshape = ctx.func(f"{name}_shape", Shp, Shp)
        self.Fdtype = ctx.const(f"{name}_dtype", DT)
        self.calls = []

    def sx_call(self, ex, args, kw, node):
        if "**" in kw:
            kw = {k: v for k, v in kw.items() if k != "**"}
        views = [getattr(a, "colview", None) for a in args]
        site = ex.site("numpy_func")
        ok = all(v is not None for v in views) and len(views) == len(ex.dispatch_inputs) and \
            all(v[0] is p for v, p in zip(views, ex.dispatch_inputs))
        ex.oblige(f"pre({site}).called_on_the_columns_of_every_operand_in_order", z3.BoolVal(ok), "precondition", node)
        if not ok:
            from engine.sx import PathEnd
            raise PathEnd()          # the failed obligation above stands; nothing more can be said on this path
        t = views[0][1]
        for v in views[1:]:
            ex.oblige(f"pre({site}).same_term_for_every_operand", v[1] == t if not isinstance(v[1], int) or not isinstance(t, int)
                      else z3.BoolVal(v[1] == t), "precondition", node)
        self.calls.append((t, dict(kw)))
        shp = args[0].shape
        return Arr(self.Fshape(shp), lambda i: self.Fcol(t, i), "real", self.Fdtype, Region("fresh"))


class SimpleDispatch(Contract):
    name = "numpoly.simple_dispatch"
    relpath = "numpoly/dispatch.py"
    func = "simple_dispatch"
    positional = ("numpy_func", "inputs", "out")
    properties = ("C01", "C10", "C11", "C12", "C17")
    assumptions = ("out=None (the out= path writes into a caller-provided polynomial: unverified)",
                   "B5: a polynomial whose coefficient columns are F(columns of the aligned operands) denotes F-hat(operands)",
                   "arity 1..2 enumerated")

    def _loops(self):
        def inv(ex, env, k):
            out_, F = env["out_"], ex.F
            ctx = ex.ctx
            return [("columns_written_so_far", ctx.forall_range(0, k + 1, lambda t: ctx.forall_idx(
                lambda i: z3.And(out_.init(t, i), out_.C(t, i) == F.Fcol(t, i)), out_.shape)))]

        def havoc(ex, env, k):
            out_ = env["out_"]
            cf = ex.ctx.func("C_h", I, Idx, R)
            inf = ex.ctx.func("init_h", I, Idx, B)
            out_._C = lambda t, i: cf(t, i)
            out_._init = lambda t, i: inf(t, i)
        return {1: LoopSpec(inv, havoc, modifies=("key",))}

    def cases(self):
        for k in (1, 2):
            def make_env(ex, k=k):
                ps = sym_polys(ex, k)
                ex.inputs = ps
                ex.F = ColFunc(ex.ctx)
                ex.ghost = {}

                def after(ex_, res):
                    ex_.dispatch_inputs = list(res)
                    ex_.ghost["aligned"] = list(res)
                ex.hooks = {"after_align": after}
                return {"numpy_func": ex.F, "inputs": tuple(ps), "out": None, "kwargs": {}}

            def check(out, k=k):
                ex, ctx = out.ex, out.ctx
                ex.oblige("raises.nothing", z3.BoolVal(out.kind == "return"), "post")
                if out.kind != "return":
                    return
                r = out.value
                ok = isinstance(r, Poly) and hasattr(r, "from_attrs") and "aligned" in ex.ghost
                ex.oblige("post.cleaned_polynomial", z3.BoolVal(ok), "post")
                if not ok:
                    return
                src = getattr(r.from_attrs["E"], "source", None)
                al = ex.ghost["aligned"]
                okc = isinstance(src, Poly) and getattr(r.from_attrs["C"], "source", (None,))[0] is src
                ex.oblige("post.result_is_cleaning_of_the_filled_polynomial", z3.BoolVal(okc), "post")
                if not okc:
                    return
                Fr = ex.F
                a0 = al[0]
                ex.oblige("post.rows_and_names_of_the_aligned_operands", z3.And(
                    src.N == a0.N, src.D == a0.D, src.names == a0.names,
                    ctx.forall_range(0, a0.N, lambda t: src.row(t) == a0.row(t))), "post")
                Cs = V.as_seq(ex, r.from_attrs["C"])
                ex.oblige("post.every_column_is_F_of_the_operand_columns", ctx.forall_range(0, a0.N, lambda t: ctx.forall_idx(
                    lambda i: z3.And(Cs.item(t).init(i), Cs.item(t).elem(i) == Fr.Fcol(t, i)), src.shape)), "post",
                    note="no term skipped, none left unwritten (C12)")
                ex.oblige("post.shape_dtype_from_numpy", z3.And(src.shape == Fr.Fshape(a0.shape), src.dtype == Fr.Fdtype), "post")
                ex.oblige("post.fresh", z3.BoolVal(r.region.owner == "fresh"), "post")
            yield Case(f"arity={k}", make_env, check, loops=self._loops())

    def apply(self, ex, args, kw, node):
        b = dict(zip(["numpy_func", "inputs", "out"], args))
        b.update(kw)
        f, inputs, out = b.get("numpy_func"), b.get("inputs"), b.get("out")
        extra = {k: v for k, v in b.items() if k not in ("numpy_func", "inputs", "out")}
        if out is not None:
            raise U("simple_dispatch with out=", node)
        if not isinstance(f, V.FnRef) or not isinstance(inputs, tuple) or not all(isinstance(p, Poly) for p in inputs):
            raise U("simple_dispatch with these arguments", node)
        ctx = ex.ctx
        site = ex.site("simple_dispatch")
        shape = inputs[0].shape
        for p in inputs[1:]:
            ex.oblige(f"pre({site}).shapes_broadcast", bok(shape, p.shape), "precondition", node)
            shape = bshape(shape, p.shape)
        elementwise = f.name in ("numpy.add", "numpy.subtract", "numpy.negative", "numpy.positive", "numpy.absolute",
                                 "numpy.ceil", "numpy.floor", "numpy.rint", "numpy.around", "numpy.isfinite")
        rshape = shape if elementwise else ctx.const("dispatch_shape", Shp)
        r = Poly(ctx, ctx.fresh("sd"), shape=rshape, region=Region("fresh", f"simple_dispatch({f.name})"))
        r.owndata = z3.BoolVal(True)
        ctx.assume(r.wf(ctx))
        from contracts.construct import keyok
        ctx.assume(ctx.forall_range(0, r.N, lambda t: keyok(r.row(t), r.D)))
        op = RING.get(f.name)
        if op is not None:
            ctx.assume(ctx.forall_idx(lambda i: r.val(i) == op(*[p.val(proj(i, shape, p.shape)) for p in inputs]), shape))
        if f.name in ("numpy.add", "numpy.subtract") and len(inputs) == 2:
            from engine.polymodel import result_type
            ctx.assume(r.dtype == result_type(inputs[0].dtype, inputs[1].dtype))
        elif f.name in ("numpy.negative", "numpy.positive"):
            ctx.assume(r.dtype == inputs[0].dtype)
        r.dispatch = dict(func=f.name, inputs=inputs, kw=extra)
        return r


class Wrapper(Contract):
    """f(x..., out=None, where=True, **kw) = simple_dispatch(numpy_func=numpy.<f>, inputs=(x...), ...)"""
    properties = ("C01",)

    def __init__(self, fname, arity, props, params=(), relname=None):
        self.func = fname
        self.name = f"numpoly.{fname}"
        self.relpath = f"numpoly/array_function/{relname or fname}.py"
        self.arity, self.params = arity, tuple(params)
        self.properties = tuple(props)

    def cases(self):
        def make_env(ex):
            ps = sym_polys(ex, self.arity)
            ex.inputs = ps
            argnames = self._argnames()
            env = dict(zip(argnames, ps))
            env.update({"out": None, "where": True, "kwargs": {}})
            ex.extra = {}
            for prm in self.params:
                tok = object()
                env[prm] = tok
                ex.extra[prm] = tok
            return env

        def check(out):
            ex, ctx = out.ex, out.ctx
            ex.oblige("raises.nothing", z3.BoolVal(out.kind == "return"), "post")
            if out.kind != "return":
                return
            r = out.value
            ok = isinstance(r, Poly) and hasattr(r, "dispatch")
            ex.oblige("post.result_of_simple_dispatch", z3.BoolVal(ok), "post")
            if not ok:
                return
            d = r.dispatch
            want = {"amax": "numpy.amax"}.get(self.func, f"numpy.{self.func}")
            ex.oblige("post.numpy_namesake_applied", z3.BoolVal(d["func"] == want), "post",
                      note=f"numpoly.{self.func} must apply numpy.{self.func} to the coefficient columns")
            ex.oblige("post.operands_in_order", z3.BoolVal(len(d["inputs"]) == self.arity and all(
                a is b for a, b in zip(d["inputs"], ex.inputs))), "post")
            fwd = all(d["kw"].get(prm) is tok for prm, tok in ex.extra.items())
            ex.oblige("post.parameters_forwarded", z3.BoolVal(fwd), "post")
            if self.params == () or "where" not in self.params:
                ex.oblige("post.where_forwarded", z3.BoolVal(d["kw"].get("where", True) is True), "post")
            op = RING.get(want)
            if op is not None:
                shape = ex.inputs[0].shape
                for p in ex.inputs[1:]:
                    shape = bshape(shape, p.shape)
                ex.oblige("post.value", ctx.forall_idx(lambda i: r.val(i) == op(*[p.val(proj(i, shape, p.shape)) for p in ex.inputs]),
                                                       shape), "post")
                ex.oblige("post.shape", r.shape == shape, "post")
        yield Case("", make_env, check)

    def _argnames(self):
        import ast
        from engine.extract import ModInfo
        fn = ModInfo(self.relpath).function(self.func)
        return [a.arg for a in (fn.args.posonlyargs + fn.args.args)][: self.arity]

    def apply(self, ex, args, kw, node):
        polys = list(args[: self.arity])
        if not all(isinstance(p, Poly) for p in polys):
            # numeric operands enter through aspolynomial (align_polynomials converts every operand): the constant polynomial
            # array with that coefficient (input kind number/array of numpoly.polynomial: proved in contracts/polynomial.py)
            from engine.polymodel import Arr
            from contracts.polynomial import Polynomial
            conv = []
            for p in polys:
                if isinstance(p, Poly):
                    conv.append(p)
                elif isinstance(p, Arr) and p.kind == "real":
                    conv.append(Polynomial().apply(ex, [p], {}, node))
                else:
                    raise U(f"{self.func} of non-ndpoly operands", node)
            polys = conv
        extra = {k: v for k, v in kw.items() if k not in ("out",)}
        if kw.get("out") is not None:
            raise U(f"{self.func} with out=", node)
        return SimpleDispatch().apply(ex, [], dict(numpy_func=V.FnRef(f"numpy.{self.func}"), inputs=tuple(polys), out=None, **{
            k: v for k, v in extra.items() if k != "**"}), node)


CONTRACTS = [SimpleDispatch(),
             Wrapper("add", 2, ("C01",)), Wrapper("subtract", 2, ("C01",)), Wrapper("negative", 1, ("C01",)),
             Wrapper("positive", 1, ("C01",)), Wrapper("absolute", 1, ("C11",)), Wrapper("ceil", 1, ("C11",)),
             Wrapper("floor", 1, ("C11",)), Wrapper("rint", 1, ("C11",)),
             Wrapper("sum", 1, ("C10",), params=("axis", "dtype", "keepdims")),
             Wrapper("cumsum", 1, ("C10",), params=("axis", "dtype")),
             Wrapper("mean", 1, ("C10",), params=("axis", "dtype")),
             Wrapper("around", 1, ("C11",), params=("decimals",)),
             Wrapper("moveaxis", 1, ("C09",), params=("source", "destination"))]
