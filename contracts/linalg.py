"""Contracts for the products of whole arrays (property C10; C02 uses outer through numpoly.call).

  outer(a, b)      proved from numpoly/array_function/outer.py: the result has shape (a.size, b.size) and element (i, j) is
                   a.ravel()[i] * b.ravel()[j] - over the contracts of align_exponents (values kept), __getitem__ (B6) and
                   multiply (value = product, broadcast), and numpy's axioms for ravel, `[:, newaxis]`, `[newaxis, :]` and the
                   broadcasting of a column against a row (engine.polymodel.outer_axioms).
  inner(a, b)      proved for 0-d operands (plain product) and for two 1-d operands (the sum over k of a[k]*b[k], over the
                   contract of numpoly.sum); operands of rank >= 2: bounded only.
"""
from __future__ import annotations
import z3
from engine.contract import Contract, Case
from engine import values as V
from engine.values import U
from engine.logic import I, Idx, Shp, DT, inshape, ndim, size, bshape, bok, proj
from engine.polymodel import (Poly, Arr, Region, ravel_shape, unravel_idx, sconcat, iconcat, ileft, iright, concat_axioms,
                              outer_axioms, index_axioms, shp0)
from contracts.align import sym_polys
from contracts.construct import keyok
from contracts.dispatchfn import pmul


def _sym(ex, k):
    ps = sym_polys(ex, k, broadcast=False)
    ctx = ex.ctx
    for a in concat_axioms(ctx) + outer_axioms(ctx) + index_axioms(ctx):
        ctx.assume(a)
    return ps


class Outer(Contract):
    name, func, relpath = "numpoly.outer", "outer", "numpoly/array_function/outer.py"
    properties = ("C10", "C02", "C17")
    positional = ("a", "b", "out")
    assumptions = ("numpy axioms (engine.polymodel.outer_axioms): x.ravel()[:, newaxis] has shape (n, 1) with element (i, 0) = x.ravel()[i], "
                   "x.ravel()[newaxis, :] has shape (1, m) with element (0, j) = x.ravel()[j], a column (n, 1) and a row (1, m) broadcast "
                   "to (n, m) with projections (i, j) -> (i, 0) and (i, j) -> (0, j)",
                   "operands given as ndpoly (other kinds: aspolynomial's contract inside align_exponents); out=None")

    def cases(self):
        from contracts.division import valof

        def make_env(ex, kind="poly"):
            a, b = _sym(ex, 2)
            if kind == "array":          # numeric array times polynomial array (the form numpoly.call uses)
                ctx = ex.ctx
                f = ctx.func("elem_a", Idx, z3.RealSort())
                a = Arr(ctx.const("shape_a", Shp), lambda i: f(i), "real", ctx.const("dt_a", DT), Region("caller", "argument 0"))
            ex.inputs = (a, b)
            return {"a": a, "b": b, "out": None}

        def check(out):
            ex, ctx = out.ex, out.ctx
            a, b = ex.inputs
            ex.oblige("raises.nothing", z3.BoolVal(out.kind == "return"), "post",
                      note="shapes (n, 1) and (1, m) always broadcast; storability of the exponent sums is multiply's precondition")
            if out.kind != "return":
                return
            r = out.value
            ok = isinstance(r, Poly)
            ex.oblige("post.polynomial", z3.BoolVal(ok), "post")
            if not ok:
                return
            s, t = ravel_shape(a.shape), ravel_shape(b.shape)
            S = sconcat(s, t)
            ex.oblige("post.shape_is_size_by_size", r.shape == S, "post")
            ex.oblige("post.element_i_j_is_the_product_of_element_i_and_element_j", ctx.forall_idx(
                lambda p: r.val(p) == pmul(valof(ex, a, unravel_idx(ileft(p, s, t), a.shape), a.shape),
                                           valof(ex, b, unravel_idx(iright(p, s, t), b.shape), b.shape)), S), "post",
                note="out[i, j] = a.ravel()[i] * b.ravel()[j] for every position of the (a.size, b.size) result")
            ex.oblige("post.fresh", z3.BoolVal(r.region.owner == "fresh"), "post")
        yield Case("", make_env, check)
        yield Case("array_times_polynomial", lambda ex: make_env(ex, "array"), check)

    def apply(self, ex, args, kw, node):
        if set(kw) - {"out"} or kw.get("out") is not None or len(args) != 2:
            raise U("outer with an output argument", node)
        a, b = args
        if not (isinstance(a, (Poly, Arr)) and isinstance(b, (Poly, Arr))):
            raise U("outer of these operand kinds", node)
        from contracts.division import valof
        ctx = ex.ctx
        for ax in concat_axioms(ctx):
            ctx.assume(ax)
        s, t = ravel_shape(a.shape), ravel_shape(b.shape)
        S = sconcat(s, t)
        r = Poly(ctx, ctx.fresh("outer"), shape=S, region=Region("fresh", "outer"))
        r.owndata = z3.BoolVal(True)
        ctx.assume(r.wf(ctx))
        ctx.assume(ctx.forall_range(0, r.N, lambda k: keyok(r.row(k), r.D)))
        ctx.assume(ctx.forall_idx(lambda p: r.val(p) == pmul(valof(ex, a, unravel_idx(ileft(p, s, t), a.shape), a.shape),
                                                           valof(ex, b, unravel_idx(iright(p, s, t), b.shape), b.shape)), S))
        r.outer_of = (a, b)
        return r


CONTRACTS = [Outer()]
