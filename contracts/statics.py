"""Whole-repository static obligations (decided from the AST on every run, like the registry enumeration of C08).

module_state_obligations: the library keeps no hidden mutable module state.  Every module-level binding of a
mutable container, every `global` statement, every memoising decorator and every mutable default argument is an
obligation that holds only for the documented registries / option dictionaries.  A result cache, a reused buffer
or a memoised helper (which make a call's result depend on the call history, and hand the same object to two
callers) fails a named obligation.
"""
from __future__ import annotations
import ast
import os

# (file relative to the repository root, name) of the module-level mutable objects that are part of the design
ALLOWED_STATE = {
    ("numpoly/baseclass.py", "REDUCE_MAPPINGS"), ("numpoly/baseclass.py", "ACCUMULATE_MAPPINGS"),
    ("numpoly/dispatch.py", "FUNCTION_COLLECTION"), ("numpoly/dispatch.py", "UFUNC_COLLECTION"),
    ("numpoly/option.py", "GLOBAL_OPTIONS_DEFAULTS"), ("numpoly/option.py", "_NUMPOLY_OPTIONS"),
    ("numpoly/__init__.py", "__all__"), ("numpoly/array_function/__init__.py", "__all__"),
}
# `where=numpy.array(True)` defaults of the two numeric division wrappers: a shared 0-d array that is only read
ALLOWED_DEFAULTS = {("numpoly/array_function/divmod.py", "divmod"), ("numpoly/array_function/floor_divide.py", "floor_divide")}
MUTABLE_CALLS = {"copy", "dict", "list", "set", "defaultdict", "OrderedDict", "deque", "Counter", "bytearray", "WeakValueDictionary",
                 "WeakKeyDictionary", "empty", "zeros", "ones", "array", "full", "arange"}
MEMO_DECORATORS = {"lru_cache", "cache", "cached_property", "memoize"}


def _is_mutable(node):
    if isinstance(node, (ast.Dict, ast.List, ast.Set, ast.ListComp, ast.DictComp, ast.SetComp)):
        return True
    if isinstance(node, ast.Call):
        f = node.func
        name = f.id if isinstance(f, ast.Name) else (f.attr if isinstance(f, ast.Attribute) else "")
        return name in MUTABLE_CALLS
    return False


def _dec_name(d):
    if isinstance(d, ast.Call):
        d = d.func
    return d.id if isinstance(d, ast.Name) else (d.attr if isinstance(d, ast.Attribute) else "")


def module_state_obligations(repo):
    out = []
    root = os.path.join(repo, "numpoly")
    nfiles = 0
    for dirpath, _dirs, files in sorted(os.walk(root)):
        for fn in sorted(files):
            if not fn.endswith(".py"):
                continue
            path = os.path.join(dirpath, fn)
            rel = os.path.relpath(path, repo)
            try:
                tree = ast.parse(open(path).read())
            except SyntaxError:
                out.append((f"module_state.parse[{rel}]", False, rel, 0))
                continue
            nfiles += 1
            for node in tree.body:
                targets, value = [], None
                if isinstance(node, ast.Assign):
                    targets, value = [t for t in node.targets if isinstance(t, ast.Name)], node.value
                elif isinstance(node, ast.AnnAssign) and isinstance(node.target, ast.Name) and node.value is not None:
                    targets, value = [node.target], node.value
                for t in targets:
                    if _is_mutable(value) and not (t.id.isupper() and isinstance(value, (ast.List, ast.Set)) and False):
                        ok = (rel, t.id) in ALLOWED_STATE
                        out.append((f"module_state.binding[{rel}:{t.id}]", ok, rel, node.lineno))
            for node in ast.walk(tree):
                if isinstance(node, ast.Global):
                    out.append((f"module_state.global_statement[{rel}:{','.join(node.names)}]", False, rel, node.lineno))
                if isinstance(node, (ast.FunctionDef, ast.AsyncFunctionDef)):
                    for d in node.decorator_list:
                        if _dec_name(d) in MEMO_DECORATORS:
                            out.append((f"module_state.memoised[{rel}:{node.name}]", False, rel, node.lineno))
                    for dflt in list(node.args.defaults) + [d for d in node.args.kw_defaults if d is not None]:
                        if _is_mutable(dflt):
                            out.append((f"module_state.mutable_default[{rel}:{node.name}]", (rel, node.name) in ALLOWED_DEFAULTS,
                                        rel, node.lineno))
                if isinstance(node, ast.ClassDef):
                    for st in node.body:
                        if isinstance(st, (ast.Assign, ast.AnnAssign)) and getattr(st, "value", None) is not None and _is_mutable(st.value):
                            tg = st.targets[0] if isinstance(st, ast.Assign) else st.target
                            name = tg.id if isinstance(tg, ast.Name) else "?"
                            ok = (rel, f"{node.name}.{name}") in ALLOWED_CLASS_STATE
                            out.append((f"module_state.class_attribute[{rel}:{node.name}.{name}]", ok, rel, st.lineno))
    out.append(("module_state.scanned_every_module", nfiles >= 100, "numpoly/", 0))
    return out


# class-level defaults of ndpoly that every instance overwrites in __new__ / __array_finalize__
ALLOWED_CLASS_STATE = {("numpoly/baseclass.py", "ndpoly.keys"), ("numpoly/baseclass.py", "ndpoly._dtype")}


# ---------------------------------------------------------------------------------------------------------------------
# instance_state_obligations: an ndpoly is its structured storage plus exactly these attributes, all set when the object is made
# (__new__) or derived from another one (__array_finalize__).  Views (p.T, p.ravel(), p.reshape(...), p[index]) are separate
# objects over the SAME memory, so any further attribute that holds something computed from the contents (a cached coefficient
# list, a memoised repr ...) goes stale when the array is updated through another view - results then depend on the history.
INSTANCE_ATTRIBUTES = {"keys", "names", "allocation", "_dtype"}
INSTANCE_WRITERS = {"__new__", "__array_finalize__", "__setstate__"}
NDARRAY_METADATA = {"shape", "dtype", "strides", "writeable"}      # numpy's own settable metadata (x.shape = ..., x.flags.writeable = ...)


def instance_state_obligations(repo):
    out = []
    root = os.path.join(repo, "numpoly")
    nstores = 0
    for dirpath, _dirs, files in sorted(os.walk(root)):
        for fn in sorted(files):
            if not fn.endswith(".py"):
                continue
            path = os.path.join(dirpath, fn)
            rel = os.path.relpath(path, repo)
            try:
                tree = ast.parse(open(path).read())
            except SyntaxError:
                out.append((f"instance_state.parse[{rel}]", False, rel, 0))
                continue
            # enclosing function of every node
            owner = {}
            for fdef in ast.walk(tree):
                if isinstance(fdef, (ast.FunctionDef, ast.AsyncFunctionDef)):
                    for sub in ast.walk(fdef):
                        owner.setdefault(id(sub), fdef.name) if sub is not fdef else None
            for node in ast.walk(tree):
                tgts = []
                if isinstance(node, ast.Assign):
                    tgts = node.targets
                elif isinstance(node, (ast.AnnAssign, ast.AugAssign)):
                    tgts = [node.target]
                flat = []
                for t in tgts:
                    flat.extend(t.elts if isinstance(t, (ast.Tuple, ast.List)) else [t])
                for t in flat:
                    if isinstance(t, ast.Attribute) and isinstance(t.ctx, ast.Store):
                        base = ast.unparse(t.value)
                        if base.startswith(("numpy.", "logging.", "logger")) or t.attr in NDARRAY_METADATA:
                            continue
                        nstores += 1
                        fn_name = owner.get(id(node), "<module>")
                        # assignments to attributes of other kinds of objects (flags of a plain array, ...) are named too: each
                        # must be one of the few reviewed sites
                        ok = (t.attr in INSTANCE_ATTRIBUTES and rel == "numpoly/baseclass.py" and fn_name in INSTANCE_WRITERS) or \
                            (rel, fn_name, f"{base}.{t.attr}") in ALLOWED_ATTRIBUTE_STORES
                        out.append((f"instance_state.attribute_store[{rel}:{fn_name}:{base}.{t.attr}]", ok, rel, node.lineno))
                if isinstance(node, ast.Call):
                    f = node.func
                    name = f.id if isinstance(f, ast.Name) else (f.attr if isinstance(f, ast.Attribute) else "")
                    if name in ("setattr", "__setattr__", "delattr"):
                        out.append((f"instance_state.setattr_call[{rel}:{owner.get(id(node), '<module>')}]", False, rel, node.lineno))
                if isinstance(node, ast.Attribute) and node.attr == "__dict__":
                    out.append((f"instance_state.dict_access[{rel}:{owner.get(id(node), '<module>')}]", False, rel, node.lineno))
                if isinstance(node, ast.ClassDef):
                    for st in node.body:
                        if isinstance(st, ast.Assign) and any(isinstance(t, ast.Name) and t.id == "__slots__" for t in st.targets):
                            out.append((f"instance_state.slots[{rel}:{node.name}]", False, rel, st.lineno))
    out.append(("instance_state.attribute_stores_found", nstores >= 4, "numpoly/", 0))
    return out


# attribute stores on objects that are not polynomial arrays (reviewed): none at the pinned commit besides ndpoly's own four
ALLOWED_ATTRIBUTE_STORES = set()
