"""Contracts for lead_coefficient, lead_exponent, isconstant, tonumpy (property C19; tonumpy/isconstant
are also used by the numeric division family of C11) and the trivial input-kind contract of aspolynomial."""
from __future__ import annotations
import z3
from engine.contract import Contract, Case, raise_
from engine.sx import LoopSpec
from engine.logic import I, Idx, B, R, Mono, inshape, ndim, size, mzero
from engine.polymodel import (Poly, Arr, RowArr, Region, shape_axioms, mono_axioms, mono_zero, dt_int, _freeze)
from engine.sortmodel import glexle, IntVec
from engine.values import U


class AsPolynomial(Contract):
    """Input-kind contract used inside other functions: an ndpoly given without names/dtype is
    returned as the very same object.  (Other input kinds: verified with the constructors, C03.)"""
    name = "numpoly.aspolynomial"
    relpath = "numpoly/construct/aspolynomial.py"
    func = "aspolynomial"
    properties = ("C03",)

    def cases(self):
        return iter(())

    def apply(self, ex, args, kw, node):
        p = args[0]
        if isinstance(p, Poly) and len(args) == 1 and not kw:
            return p
        from contracts.shapefn import MovedRaw, rewrap
        if isinstance(p, MovedRaw) and len(args) == 1 and set(kw) == {"names"}:
            return rewrap(ex, p, kw["names"], node)
        raise U("aspolynomial of this input kind", node)


def nonzero_witness(ctx, P, w, shape, graded, reverse):
    nz = lambda u, i: P.C(u, i) != 0
    return [
        ("range", ctx.forall_idx(lambda i: z3.And(w(i) >= -1, w(i) < P.N), shape)),
        ("none_iff_zero", ctx.forall_idx(lambda i: z3.Implies(
            w(i) == -1, ctx.forall_range(0, P.N, lambda u: z3.Not(nz(u, i)))), shape)),
        ("nonzero_at_witness", ctx.forall_idx(lambda i: z3.Implies(w(i) >= 0, nz(w(i), i)), shape)),
        ("largest", ctx.forall_idx(lambda i: z3.Implies(w(i) >= 0, ctx.forall_range(0, P.N, lambda u: z3.Implies(
            nz(u, i), glexle(P.row(u), P.row(w(i)), P.D, graded, reverse)))), shape)),
    ]


class Lead(Contract):
    properties = ("C19",)
    assumptions = ("A1: coefficients are mathematical reals",)

    def __init__(self, which):
        self.which = which                    # "coefficient" | "exponent"
        self.func = f"lead_{which}"
        self.name = f"numpoly.{self.func}"
        self.relpath = f"numpoly/poly_function/{self.func}.py"

    def _loops(self):
        which = self.which

        def inv(ex, env, k):
            g = ex.ghost
            P, pi, last = g["P"], g["pi"], g["last"]
            out = env["out"]
            ctx = ex.ctx

            def at(i):
                L = last(k, i)
                nz = lambda j: P.C(pi.at(j), i) != 0
                val = (out.elem(i) == z3.If(L == -1, 0, P.C(pi.at(L), i))) if which == "coefficient" else \
                    (out.rowelem(i) == z3.If(L == -1, mono_zero, P.row(pi.at(L))))
                return z3.And(L >= -1, L < k, z3.Implies(L >= 0, nz(L)),
                              ctx.forall_range(0, k, lambda j: z3.Implies(j > L, z3.Not(nz(j)))), val)
            return [("acc", ctx.forall_idx(at, P.shape))]

        def havoc(ex, env, k):
            out = env["out"]
            if which == "coefficient":
                h = ex.ctx.func("out_h", Idx, R)
                out._elem = lambda i: h(i)
            else:
                h = ex.ctx.func("out_h", Idx, Mono)
                out._rowelem = lambda i: h(i)

        def ghost(ex, env, k):
            g = ex.ghost
            P, pi, last = g["P"], g["pi"], g["last"]
            return [ex.ctx.forall_idx(lambda i: last(k + 1, i) == z3.If(P.C(pi.at(k), i) != 0, k, last(k, i)))]
        mods = ("out", "idx", "values", "indices")
        return {1: LoopSpec(inv, havoc, modifies=mods, ghost=ghost)}

    def cases(self):
        for label, zero_d in (("nd", False), ("0d", True)):
            def make_env(ex, zero_d=zero_d):
                ctx = ex.ctx
                for a in shape_axioms(ctx) + mono_axioms(ctx):
                    ctx.assume(a)
                P = Poly(ctx, "poly", region=Region("caller", "poly"))
                ctx.assume(P.wf(ctx))
                ctx.assume((ndim(P.shape) == 0) if zero_d else (ndim(P.shape) >= 1))
                ctx.assume(size(P.shape) >= 1)
                ex.ghost = {"P": P}

                def after_glexsort(ex_, rho):
                    ex_.ghost["pi"] = rho
                    last = ex_.ctx.func("last", I, Idx, I)
                    ex_.ghost["last"] = last
                    ex_.ctx.assume(ex_.ctx.forall_sort(Idx, lambda i: last(0, i) == -1, "i"))
                ex.hooks = {"after_glexsort": after_glexsort}
                return {"poly": P, "graded": z3.Bool("graded"), "reverse": z3.Bool("reverse")}

            def check(out, zero_d=zero_d):
                self._check(out, zero_d)
            yield Case(label, make_env, check, loops=self._loops())

    def _check(self, out, zero_d):
        ex, ctx = out.ex, out.ctx
        ex.oblige("raises.nothing", z3.BoolVal(out.kind == "return"), "post")
        if out.kind != "return":
            return
        res = out.value
        P = ex.ghost["P"]
        if "last" not in ex.ghost:
            ex.oblige("post.loop_reached", z3.BoolVal(False), "post")
            return
        pi, last = ex.ghost["pi"], ex.ghost["last"]
        K, graded, reverse = pi.sorted_keys
        g, r = out.env["graded"], out.env["reverse"]
        bb = lambda v: z3.BoolVal(v) if isinstance(v, bool) else v
        ex.oblige("post.order_flags_are_the_arguments", z3.And(bb(graded) == g, bb(reverse) == r), "post")
        ex.oblige("post.sorted_rows_are_the_rows", z3.And(K.n == P.N, K.D == P.D,
                                                          ctx.forall_range(0, P.N, lambda c: K.col(c) == P.row(c))), "post")
        w = lambda i: z3.If(last(P.N, i) == -1, -1, pi.at(last(P.N, i)))
        u, ii = z3.Int(ctx.fresh("u")), z3.Const(ctx.fresh("i"), Idx)
        ctx.assume(z3.ForAll([u, ii], z3.Implies(z3.And(0 <= u, u < P.N), z3.And(
            0 <= pi.inv(u), pi.inv(u) < P.N, pi.at(pi.inv(u)) == u)), patterns=[P.C(u, ii)]))
        for cname, f in nonzero_witness(ctx, P, w, P.shape, graded, reverse):
            ex.oblige(f"post.witness.{cname}", f, "post")
        if self.which == "coefficient":
            if zero_d:
                ok = isinstance(res, z3.ArithRef)
                ex.oblige("post.scalar_for_0d", z3.BoolVal(ok), "post")
                if ok:
                    i0 = z3.Const(ctx.fresh("i0"), Idx)
                    ex.oblige("post.value", z3.ForAll([i0], z3.Implies(inshape(i0, P.shape), res == z3.If(
                        w(i0) == -1, 0, P.C(w(i0), i0)))), "post")
                return
            ok = isinstance(res, Arr)
            ex.oblige("post.array", z3.BoolVal(ok), "post")
            if not ok:
                return
            ex.oblige("post.shape", res.shape == P.shape, "post")
            ex.oblige("post.dtype", res.dtype == P.dtype, "post")
            ex.oblige("post.value", ctx.forall_idx(lambda i: res.elem(i) == z3.If(w(i) == -1, 0, P.C(w(i), i)), P.shape),
                      "post", note="coefficient of the largest term with non-zero coefficient; 0 for the zero polynomial")
        else:
            ok = isinstance(res, RowArr)
            ex.oblige("post.row_array", z3.BoolVal(ok), "post")
            if not ok:
                return
            ex.oblige("post.shape", z3.And(res.shape == P.shape, res.D == P.D), "post")
            ex.oblige("post.value", ctx.forall_idx(lambda i: res.rowelem(i) == z3.If(w(i) == -1, mono_zero, P.row(w(i))),
                                                   P.shape), "post",
                      note="exponent of the largest term with non-zero coefficient; zeros for the zero polynomial")

    def apply(self, ex, args, kw, node):
        raise U(f"{self.func} as a callee", node)


class IsConstant(Contract):
    name = "numpoly.isconstant"
    relpath = "numpoly/poly_function/isconstant.py"
    func = "isconstant"
    properties = ("C19", "C11")

    @staticmethod
    def spec(ctx, P):
        return ctx.forall_range(0, P.N, lambda t: z3.Or(mzero(P.row(t), P.D),
                                                        ctx.forall_idx(lambda i: P.C(t, i) == 0, P.shape)))

    def _loops(self):
        def inv(ex, env, k):
            P = ex.ghost["P"]
            ctx = ex.ctx
            return [("no_nonconstant_term_so_far", ctx.forall_range(0, k, lambda t: z3.Or(
                mzero(P.row(t), P.D), ctx.forall_idx(lambda i: P.C(t, i) == 0, P.shape))))]

        def havoc(ex, env, k):
            pass
        return {1: LoopSpec(inv, havoc, modifies=("exponent", "coefficient"))}

    def cases(self):
        def make_env(ex):
            ctx = ex.ctx
            for a in shape_axioms(ctx) + mono_axioms(ctx):
                ctx.assume(a)
            P = Poly(ctx, "poly", region=Region("caller", "poly"))
            ctx.assume(P.wf(ctx))
            ex.ghost = {"P": P}
            return {"poly": P}

        def check(out):
            ex, ctx = out.ex, out.ctx
            ex.oblige("raises.nothing", z3.BoolVal(out.kind == "return"), "post")
            if out.kind != "return":
                return
            P = ex.ghost["P"]
            res = out.value
            ok = isinstance(res, (bool, z3.BoolRef))
            ex.oblige("post.boolean", z3.BoolVal(ok), "post")
            if ok:
                rb = z3.BoolVal(res) if isinstance(res, bool) else res
                ex.oblige("post.value", rb == self.spec(ctx, P), "post",
                          note="True iff every term with a non-zero exponent has an all-zero coefficient")
        yield Case("", make_env, check, loops=self._loops())

    def apply(self, ex, args, kw, node):
        P = args[0]
        if not isinstance(P, Poly):
            raise U("isconstant of non-ndpoly", node)
        return self.spec(ex.ctx, P)


class ToNumpy(Contract):
    name = "numpoly.tonumpy"
    relpath = "numpoly/poly_function/tonumpy.py"
    func = "tonumpy"
    properties = ("C19", "C11")

    def cases(self):
        def make_env(ex):
            ctx = ex.ctx
            for a in shape_axioms(ctx) + mono_axioms(ctx):
                ctx.assume(a)
            P = Poly(ctx, "poly", region=Region("caller", "poly"))
            ctx.assume(P.wf(ctx))
            ctx.assume(size(P.shape) >= 1)
            ex.ghost = {"P": P}
            return {"poly": P}

        def check(out):
            ex, ctx = out.ex, out.ctx
            P = ex.ghost["P"]
            const = IsConstant.spec(ctx, P)
            if out.kind == "raise":
                ex.oblige("raises.only_FeatureNotSupported", z3.BoolVal(out.exc == "FeatureNotSupported"), "post")
                ex.oblige("raises.only_if_not_constant", z3.Not(const), "post")
                return
            ex.oblige("post.constant", const, "post", note="returns only for constant polynomials")
            res = out.value
            ok = isinstance(res, Arr)
            ex.oblige("post.array", z3.BoolVal(ok), "post")
            if not ok:
                return
            ex.oblige("post.shape", res.shape == P.shape, "post")
            ex.oblige("post.dtype", res.dtype == P.dtype, "post")
            ex.oblige("post.fresh", z3.BoolVal(res.region.owner == "fresh"), "post")
            # value: the coefficient of the constant term, zero when there is none
            ex.oblige("post.value", ctx.forall_idx(lambda i: ctx.forall_range(0, P.N, lambda t: z3.Implies(
                mzero(P.row(t), P.D), res.elem(i) == P.C(t, i))), P.shape), "post")
            ex.oblige("post.value_without_constant_term", z3.Implies(
                ctx.forall_range(0, P.N, lambda t: z3.Not(mzero(P.row(t), P.D))),
                ctx.forall_idx(lambda i: res.elem(i) == 0, P.shape)), "post")
        yield Case("", make_env, check)

    def apply(self, ex, args, kw, node):
        from contracts.numeric import tonumpy_apply
        if len(args) == 1 and isinstance(args[0], Poly) and not kw:
            return tonumpy_apply(ex, args[0], node)
        raise U("tonumpy of this operand", node)


class Decompose(Contract):
    name = "numpoly.decompose"
    relpath = "numpoly/poly_function/decompose.py"
    func = "decompose"
    properties = ("C19",)
    assumptions = ("B6 (stacking whole elements); B12: a polynomial is the sum of its terms (definition of the abstract view)",)

    def cases(self):
        def make_env(ex):
            from contracts.baseclass import own_poly
            P = own_poly(ex, "poly", allocation=False)
            ex.P = P
            return {"poly": P}

        def check(out):
            from engine.polymodel import prepend, NamesV
            from engine import values as V
            ex, ctx = out.ex, out.ctx
            P = ex.P
            ex.oblige(f"raises.nothing[{out.exc}:{out.value}]" if out.kind == "raise" else "raises.nothing", z3.BoolVal(out.kind == "return"), "post")
            if out.kind != "return":
                return
            r = out.value
            pcs = getattr(r, "pieces", None)
            ok = isinstance(r, Poly) and pcs is not None
            ex.oblige("post.stack_of_one_array_per_term", z3.BoolVal(ok), "post")
            if not ok:
                return
            ex.oblige("post.shape_is_N_plus_operand_shape", r.shape == prepend(P.N, P.shape), "post")
            t0 = ctx.int("t")                        # an arbitrary term
            ctx.assume(z3.And(0 <= t0, t0 < P.N))
            src = pcs["link"](t0)
            fa = getattr(src, "from_attrs", None)
            okf = fa is not None
            ex.oblige("post.slice_t_is_built_from_attributes", z3.BoolVal(okf), "post")
            if not okf:
                return
            E, C = fa["E"], fa["C"]
            Cs = V.as_seq(ex, C)
            ex.oblige("post.slice_t_has_the_single_term_t", z3.And(E.n == 1, E.D == P.D, E.row(0) == P.row(t0), Cs.n == 1,
                                                                  Cs.item(z3.IntVal(0)).shape == P.shape, ctx.forall_idx(
                lambda i: Cs.item(z3.IntVal(0)).elem(i) == P.C(t0, i), P.shape)), "post",
                note="for an arbitrary t: slice t is the monomial term t (its exponent row, its coefficient) and nothing else")
            ex.oblige("post.slice_t_keeps_term_and_names", z3.BoolVal(fa["rc"] is True and fa["rn"] is True), "post")
            nm = fa["names"]
            ex.oblige("post.slice_t_has_the_operand_names", z3.BoolVal(
                (isinstance(nm, Poly) and getattr(nm, "indeterminants_of", None) is P) or (isinstance(nm, NamesV) and nm.term is P.names)), "post")
        yield Case("", make_env, check)

    def apply(self, ex, args, kw, node):
        raise U("decompose as a callee", node)


class SetDimensionsDown(Contract):
    """set_dimensions(poly, k) with k <= number of indeterminates: the trailing indeterminates are dropped TOGETHER WITH every
    term that involves one of them; k equal to the number of indeterminates returns the polynomial itself.
    (Adding indeterminates - a while loop over generated names - is outside this proof: bounded check.)"""
    name = "numpoly.set_dimensions"
    relpath = "numpoly/poly_function/set_dimensions.py"
    func = "set_dimensions"
    properties = ("C19", "C12")
    positional = ("poly", "dimensions")

    def cases(self):
        for label in ("fewer", "equal"):
            def make_env(ex, label=label):
                from contracts.baseclass import own_poly
                from engine.sortmodel import meq
                P = own_poly(ex, "poly")
                ex.P = P
                k = ex.ctx.int("dimensions")
                ex.ctx.assume(z3.And(1 <= k, k < P.D) if label == "fewer" else k == P.D)
                ex.k = k
                ex.pair_hints = [lambda t, s: meq(ex.dup_matrix.row(t), ex.dup_matrix.row(s), P.D)]
                return {"poly": P, "dimensions": k}

            def check(out, label=label):
                from engine.polymodel import NamesV, nat, nlen, DTypeV
                from engine.logic import expo
                from engine import values as V
                ex, ctx = out.ex, out.ctx
                P, k = ex.P, ex.k
                ex.oblige(f"raises.nothing[{out.exc}:{out.value}]" if out.kind == "raise" else "raises.nothing", z3.BoolVal(out.kind == "return"), "post")
                if out.kind != "return":
                    return
                r = out.value
                if label == "equal":
                    ex.oblige("post.unchanged_for_the_same_number_of_indeterminates", z3.BoolVal(r is P), "post")
                    return
                fa = getattr(r, "from_attrs", None)
                ok = isinstance(r, Poly) and fa is not None
                ex.oblige("post.built_from_attributes", z3.BoolVal(ok), "post")
                if not ok:
                    return
                involved = lambda t: z3.Not(ctx.forall_range(k, P.D, lambda d: expo(P.row(t), d) == 0))
                E, C = fa["E"], fa["C"]
                nm = fa["names"]
                okn = isinstance(nm, NamesV)
                ex.oblige("post.names_are_the_first_k_names", z3.And(nlen(nm.term) == k, ctx.forall_range(
                    0, k, lambda d: nat(nm.term, d) == nat(P.names, d))) if okn else z3.BoolVal(False), "post")
                ex.oblige("post.names_not_pruned", z3.BoolVal(fa["rn"] is True), "post")
                ex.oblige("post.dtype_kept", (fa["dtype"].term == P.dtype) if isinstance(fa["dtype"], DTypeV) else z3.BoolVal(False), "post")
                if isinstance(C, list):
                    okz = len(C) == 1 and isinstance(C[0], Arr)
                    ex.oblige("post.zero.single_zero_term", z3.BoolVal(okz), "post")
                    if okz:
                        ex.oblige("post.zero.every_term_involves_a_dropped_indeterminate", ctx.forall_range(0, P.N, involved), "post",
                                  note="the zero polynomial only when nothing survives")
                        from engine.logic import mzero
                        ex.oblige("post.zero.row_and_coefficient", z3.And(E.n == 1, E.D == k, mzero(E.row(0), k), C[0].shape == P.shape,
                                                                         ctx.forall_idx(lambda i: C[0].elem(i) == 0, P.shape)), "post")
                    return
                s = getattr(C, "selection", None)
                oks = s is not None
                ex.oblige("post.terms.selection_of_the_operand_terms", z3.BoolVal(oks), "post")
                if not oks:
                    return
                Cs = V.as_seq(ex, C)
                M, sel, selidx = s.M, s.sel, s.selidx
                ex.oblige("post.terms.one_row_per_coefficient", z3.And(E.n == M, Cs.n == M, E.D == k), "post")
                ex.oblige("post.terms.only_terms_free_of_the_dropped_indeterminates", ctx.forall_range(0, M, lambda j: z3.And(
                    0 <= sel(j), sel(j) < P.N, z3.Not(involved(sel(j))))), "post")
                ex.oblige("post.terms.every_term_free_of_the_dropped_indeterminates", ctx.forall_range(0, P.N, lambda t: z3.Implies(
                    z3.Not(involved(t)), z3.And(0 <= selidx(t), selidx(t) < M, sel(selidx(t)) == t))), "post")
                ex.oblige("post.terms.exponents_of_the_kept_indeterminates_and_coefficients_unchanged", ctx.forall_range(0, M, lambda j: z3.And(
                    ctx.forall_range(0, k, lambda d: expo(E.row(j), d) == expo(P.row(sel(j)), d)),
                    Cs.item(j).shape == P.shape, ctx.forall_idx(lambda i: Cs.item(j).elem(i) == P.C(sel(j), i), P.shape))), "post")
            yield Case(label, make_env, check)

    def apply(self, ex, args, kw, node):
        raise U("set_dimensions as a callee", node)


CONTRACTS = [AsPolynomial(), Lead("coefficient"), Lead("exponent"), IsConstant(), ToNumpy(), Decompose(), SetDimensionsDown()]
