"""Contracts for numpoly/option.py  (property C14).

Module state: two dict objects, `_NUMPOLY_OPTIONS` (current) and `GLOBAL_OPTIONS_DEFAULTS`.
Module invariant I:  dom(current) = dom(defaults) = K  (the shipped key set), the two are
distinct objects, and `defaults` is never written.
"""
from __future__ import annotations
import ast
import os
import z3
from engine.contract import Contract, Case, raise_
from engine import values as V
from engine.optmodel import OptDict, OKey, OVal, kwargs_as_map, okey, distinct_keys, KNOWN_KEYS
from engine.sx import RaiseSig


class OptState:
    """Symbolic module state satisfying the invariant I."""

    def __init__(self, ex):
        ctx = ex.ctx
        self.K = z3.Const("K_dom", z3.ArraySort(OKey, z3.BoolSort()))
        self.cur = OptDict.symbolic(ctx, "cur", owner="module:_NUMPOLY_OPTIONS")
        self.dfl = OptDict.symbolic(ctx, "dfl", owner="module:GLOBAL_OPTIONS_DEFAULTS")
        ctx.assume(self.cur.dom == self.K)
        ctx.assume(self.dfl.dom == self.K)
        ctx.assume(distinct_keys())
        for k in KNOWN_KEYS:
            ctx.assume(self.K[okey(k)])
        # boolean option values: reading back what was stored
        from engine.optmodel import ovbool, oval_of_bool
        ctx.assume(z3.And(ovbool(oval_of_bool(z3.BoolVal(True))), z3.Not(ovbool(oval_of_bool(z3.BoolVal(False))))))
        self.cur0 = self.cur.snapshot()
        self.dfl0 = self.dfl.snapshot()

    def env(self):
        return {"_NUMPOLY_OPTIONS": self.cur, "GLOBAL_OPTIONS_DEFAULTS": self.dfl}

    def invariant(self, ctx):
        return [("I.dom_current", self.cur.dom == self.K),
                ("I.defaults_untouched", self.dfl.equals(ctx, *self.dfl0)),
                ("I.distinct_objects", z3.BoolVal(self.cur is not self.dfl))]

    def unchanged(self, ctx):
        return self.cur.equals(ctx, *self.cur0)


def get_state(ex):
    """Module state seen by a *caller* of the option API (created on first use)."""
    st = getattr(ex, "opt_state", None)
    if st is None:
        st = OptState(ex)
        ex.opt_state = st
    return st


class GetOptions(Contract):
    name = "numpoly.get_options"
    relpath = "numpoly/option.py"
    func = "get_options"
    properties = ("C14",)
    positional = ("defaults",)

    def cases(self):
        for label, dflag in (("current", False), ("defaults", True), ("symbolic_flag", None)):
            def make_env(ex, dflag=dflag):
                st = OptState(ex)
                ex.opt_state = st
                ex.writable_dicts = set()           # get_options may write nothing
                env = st.env()
                env["defaults"] = ex.ctx.bool("defaults") if dflag is None else dflag
                return env

            def check(out, dflag=dflag):
                ex, ctx, st = out.ex, out.ctx, out.ex.opt_state
                ex.oblige("raises.nothing", z3.BoolVal(out.kind == "return"), "post")
                if out.kind != "return":
                    return
                res = out.value
                isd = isinstance(res, OptDict)
                ex.oblige("post.is_dict", z3.BoolVal(isd), "post")
                if not isd:
                    return
                ex.oblige("post.detached_copy", z3.BoolVal(res is not st.cur and res is not st.dfl), "post",
                          note="result must be a fresh dict object, not the module's own")
                d = out.env["defaults"]
                want_d = res.equals(ctx, *st.dfl0)
                want_c = res.equals(ctx, *st.cur0)
                if isinstance(d, bool):
                    ex.oblige("post.content", want_d if d else want_c, "post")
                else:
                    ex.oblige("post.content", z3.If(d, want_d, want_c), "post")
                ex.oblige("post.state_unchanged", st.unchanged(ctx), "post")
                for n, f in st.invariant(ctx):
                    ex.oblige(f"post.{n}", f, "post")
            yield Case(label, make_env, check)

    def apply(self, ex, args, kw, node):
        st = get_state(ex)
        d = args[0] if args else kw.get("defaults", False)
        if isinstance(d, bool):
            src = st.dfl if d else st.cur
            return OptDict(src.dom, src.val, "fresh")
        x = z3.Const(ex.ctx.fresh("x"), OKey)
        return OptDict(z3.If(d, st.dfl.dom, st.cur.dom), z3.If(d, st.dfl.val, st.cur.val), "fresh")


class SetOptions(Contract):
    name = "numpoly.set_options"
    relpath = "numpoly/option.py"
    func = "set_options"
    properties = ("C14",)

    def _loops(self):
        from engine.sx import LoopSpec

        def inv(ex, env, k):
            kwargs, cur = env["kwargs"], env["_NUMPOLY_OPTIONS"]
            st = ex.opt_state
            return [("keys_so_far_known", ex.ctx.forall_range(0, k, lambda j: st.cur0[0][kwargs.key(j)])),
                    ("no_write_yet", st.unchanged(ex.ctx))]

        def havoc(ex, env, k):
            pass                                   # the validation loop modifies nothing
        return {1: LoopSpec(inv, havoc, modifies=("key",))}

    def cases(self):
        def make_env(ex):
            st = OptState(ex)
            ex.opt_state = st
            ex.writable_dicts = {st.cur.ident}
            env = st.env()
            env["kwargs"] = V.SymKwargs(ex.ctx, OKey, OVal, "kwargs")
            return env

        def check(out):
            ex, ctx, st = out.ex, out.ctx, out.ex.opt_state
            kwargs = out.env["kwargs"]
            x = z3.Const(ctx.fresh("x"), OKey)
            all_known = z3.ForAll([x], z3.Implies(kwargs.has(x), st.cur0[0][x]))
            if out.kind == "raise":
                ex.oblige("raises.only_KeyError", z3.BoolVal(out.exc == "KeyError"), "post")
                ex.oblige("raises.KeyError_only_if_unknown_key", z3.Not(all_known), "post")
                ex.oblige("raises.state_unchanged", st.unchanged(ctx), "post",
                          note="unknown option name must be rejected without changing any option")
            else:
                ex.oblige("post.no_unknown_key", all_known, "post")
                ex.oblige("post.returns_None", z3.BoolVal(out.value is None), "post")
                y = z3.Const(ctx.fresh("y"), OKey)
                dom0, val0 = st.cur0
                ex.oblige("post.exactly_given_options_changed",
                          z3.ForAll([y], z3.And(st.cur.dom[y] == dom0[y],
                                                z3.Implies(dom0[y], st.cur.val[y] == z3.If(kwargs.has(y), kwargs.at(y), val0[y])))),
                          "post")
            for n, f in st.invariant(ctx):
                ex.oblige(f"post.{n}", f, "post")
        yield Case("", make_env, check, loops=self._loops())

    def apply(self, ex, args, kw, node):
        st = get_state(ex)
        site = ex.site("set_options")
        if args:
            ex.oblige(f"pre({site}).keyword_only", z3.BoolVal(False), "precondition", node)
        has, at = kwargs_as_map(ex, kw, node)
        x = z3.Const(ex.ctx.fresh("x"), OKey)
        dom0, val0 = st.cur.dom, st.cur.val
        all_known = z3.ForAll([x], z3.Implies(has(x), dom0[x]))
        c = ex.decide(all_known, "set_options.known")
        if not c:
            raise_("KeyError", node)              # state unchanged
        y = z3.Const(ex.ctx.fresh("y"), OKey)
        st.cur.val = z3.Lambda([y], z3.If(has(y), at(y), val0[y]))
        return None


class GlobalOptions(Contract):
    name = "numpoly.global_options"
    relpath = "numpoly/option.py"
    func = "global_options"
    properties = ("C14",)
    assumptions = ("contextlib.contextmanager: the generator is resumed (normal exit) or thrown into "
                   "(exception in the block) exactly once at its single yield; `finally` runs on both",)

    def cases(self):
        def make_env(ex):
            st = OptState(ex)
            ex.opt_state = st
            ex.writable_dicts = {st.cur.ident}
            ex.yielded = 0
            env = st.env()
            env["kwargs"] = V.SymKwargs(ex.ctx, OKey, OVal, "kwargs")
            return env

        def on_yield(ex, value, node):
            ctx, st = ex.ctx, ex.opt_state
            ex.yielded += 1
            kwargs = None
            # inside the block: exactly the given options changed
            ex.block_state = st.cur.snapshot()
            ex.yield_value = value
            # the block body is arbitrary API usage (nested blocks, set_options, exceptions):
            # havoc the current options subject to the module invariant
            st.cur.dom = z3.Const(ctx.fresh("body_dom"), z3.ArraySort(OKey, z3.BoolSort()))
            st.cur.val = z3.Const(ctx.fresh("body_val"), z3.ArraySort(OKey, OVal))
            ctx.assume(st.cur.dom == st.K)
            how = ex.choice(3, "block exit")
            if how == 1:
                raise RaiseSig("BlockException", node)            # an ordinary exception raised in the block
            if how == 2:
                raise RaiseSig("BlockBaseException", node)        # KeyboardInterrupt / SystemExit / GeneratorExit (closing a generator)
            return None

        def check(out):
            ex, ctx, st = out.ex, out.ctx, out.ex.opt_state
            kwargs = out.env["kwargs"]
            x = z3.Const(ctx.fresh("x"), OKey)
            all_known = z3.ForAll([x], z3.Implies(kwargs.has(x), st.cur0[0][x]))
            if ex.yielded == 0:
                # never entered the block: only legal for an unknown option name
                ex.oblige("entry.raises_only_KeyError", z3.BoolVal(out.kind == "raise" and out.exc == "KeyError"), "post")
                ex.oblige("entry.KeyError_only_if_unknown_key", z3.Not(all_known), "post")
                ex.oblige("entry.state_unchanged_on_reject", st.unchanged(ctx), "post")
                return
            ex.oblige("block.single_yield", z3.BoolVal(ex.yielded == 1), "post")
            ex.oblige("entry.no_unknown_key", all_known, "post")
            dom_b, val_b = ex.block_state
            y = z3.Const(ctx.fresh("y"), OKey)
            dom0, val0 = st.cur0
            ex.oblige("block.exactly_given_options_changed",
                      z3.ForAll([y], z3.And(dom_b[y] == dom0[y],
                                            z3.Implies(dom0[y], val_b[y] == z3.If(kwargs.has(y), kwargs.at(y), val0[y])))),
                      "post")
            yv = ex.yield_value
            if isinstance(yv, OptDict):
                ex.oblige("block.yields_copy_of_options", yv.equals(ctx, dom_b, val_b), "post")
                ex.oblige("block.yield_detached", z3.BoolVal(yv is not st.cur and yv is not st.dfl), "post")
            else:
                ex.oblige("block.yields_copy_of_options", z3.BoolVal(False), "post")
            if out.kind == "raise":
                ex.oblige("exit.exception_propagates", z3.BoolVal(out.exc in ("BlockException", "BlockBaseException")), "post")
                ex.oblige(f"exit.restore[{'exception' if out.exc == 'BlockException' else 'non-Exception exception'}]", st.unchanged(ctx), "post",
                          note="complete previous option set restored when the block exits by exception (also KeyboardInterrupt, "
                               "SystemExit, GeneratorExit)")
            else:
                ex.oblige("exit.restore[normal]", st.unchanged(ctx), "post",
                          note="complete previous option set restored on normal exit")
            for n, f in st.invariant(ctx):
                ex.oblige(f"exit.{n}", f, "post")
        yield Case("", make_env, check, on_yield=on_yield)

    def apply(self, ex, args, kw, node):
        """global_options(**kw) used in a `with` statement of library code (engine.sx.st_With): the verified contract above -
        enter: KeyError with the state untouched for an unknown name, else exactly the given options changed;
        exit (any way out): the complete option set of the entry restored."""
        if args:
            ex.oblige(f"pre({ex.site('global_options')}).keyword_only", z3.BoolVal(False), "precondition", node)
        return OptionsBlock(kw)


class OptionsBlock:
    def __init__(self, kw):
        self.kw = kw
        self.saved = None

    def sx_enter(self, ex, node):
        st = get_state(ex)
        has, at = kwargs_as_map(ex, self.kw, node)
        x = z3.Const(ex.ctx.fresh("x"), OKey)
        dom0, val0 = st.cur.dom, st.cur.val
        if not ex.decide(z3.ForAll([x], z3.Implies(has(x), dom0[x])), "global_options.known"):
            raise_("KeyError", node)              # state unchanged
        self.saved = (dom0, val0)
        if "**" not in self.kw:
            # named options only: a chain of stores (plain array theory, no lambda)
            from engine.optmodel import _val
            v = val0
            for k, x_ in self.kw.items():
                v = z3.Store(v, okey(k), _val(x_))
            st.cur.val = v
        else:
            y = z3.Const(ex.ctx.fresh("y"), OKey)
            st.cur.val = z3.Lambda([y], z3.If(has(y), at(y), val0[y]))
        ex.__dict__.setdefault("option_blocks", []).append(self)
        return OptDict(st.cur.dom, st.cur.val, "fresh")

    def sx_exit(self, ex, node):
        st = get_state(ex)
        st.cur.dom, st.cur.val = self.saved
        self.exited = True


def static_frame_obligations(repo):
    """Whole-repository scan (every run): the two option dicts are referenced only inside
    option.py, and there only by the three API functions and the initialising assignment."""
    results = []
    names = {"_NUMPOLY_OPTIONS", "GLOBAL_OPTIONS_DEFAULTS"}
    root = os.path.join(repo, "numpoly")
    for dirpath, _, files in os.walk(root):
        for f in files:
            if not f.endswith(".py"):
                continue
            path = os.path.join(dirpath, f)
            rel = os.path.relpath(path, repo)
            try:
                tree = ast.parse(open(path).read())
            except SyntaxError:
                continue
            if rel == "numpoly/option.py":
                allowed_funcs = {"get_options", "set_options", "global_options"}
                for node in tree.body:
                    if isinstance(node, ast.FunctionDef) and node.name in allowed_funcs:
                        continue
                    if isinstance(node, ast.Assign):
                        tg = [t.id for t in node.targets if isinstance(t, ast.Name)]
                        if tg == ["GLOBAL_OPTIONS_DEFAULTS"] and isinstance(node.value, ast.Dict):
                            continue
                        if tg == ["_NUMPOLY_OPTIONS"]:
                            ok = (isinstance(node.value, ast.Call) and isinstance(node.value.func, ast.Attribute)
                                  and node.value.func.attr == "copy" and isinstance(node.value.func.value, ast.Name)
                                  and node.value.func.value.id == "GLOBAL_OPTIONS_DEFAULTS")
                            results.append(("static.options_initialised_as_copy_of_defaults", ok, rel, node.lineno))
                            continue
                    for n in ast.walk(node):
                        if isinstance(n, ast.Name) and n.id in names:
                            results.append((f"static.frame.no_other_reference[{rel}:{getattr(node, 'name', 'module')}]",
                                            False, rel, n.lineno))
            else:
                for n in ast.walk(tree):
                    if (isinstance(n, ast.Name) and n.id in names) or (isinstance(n, ast.Attribute) and n.attr in names) \
                            or (isinstance(n, ast.alias) and n.name in names):
                        results.append((f"static.frame.no_other_reference[{rel}]", False, rel, getattr(n, "lineno", 0)))
    if not any(r[0] == "static.options_initialised_as_copy_of_defaults" for r in results):
        results.append(("static.options_initialised_as_copy_of_defaults", False, "numpoly/option.py", 0))
    results.append(("static.frame.scan_complete", True, "numpoly", 0))
    return results


CONTRACTS = [GetOptions(), SetOptions(), GlobalOptions()]
