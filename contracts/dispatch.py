"""Contracts for the numpy dispatch hooks ndpoly.__array_ufunc__ / __array_function__ (C08),
plus the static, exhaustive enumeration of the registries (read from the AST on every run)."""
from __future__ import annotations
import ast
import os
import z3
from engine.contract import Contract, Case
from engine import values as V
from engine.values import U

Callable_ = z3.DeclareSort("Callable")


class CallMap:
    """dict {numpy callable -> implementation}: has / at functions."""

    def __init__(self, name):
        self.name = name
        self.has = z3.Function(f"{name}_has", Callable_, z3.BoolSort())
        self.at = z3.Function(f"{name}_at", Callable_, Callable_)

    def sx_contains(self, ex, item, node):
        return self.has(_c(item, node))

    def sx_getitem(self, ex, idx, node):
        k = _c(idx, node)
        ex.oblige(f"pre({ex.site('dict_lookup')}).key_present[{self.name}]", self.has(k), "index", node,
                  note="a missing key would raise KeyError, not FeatureNotSupported")
        return CallableV(self.at(k))


class CallableV:
    def __init__(self, term):
        self.term = term

    def sx_getattr(self, ex, attr, node):
        if attr == "__name__":
            return NameOf(self.term)
        raise U(f"attribute {attr} of a callable", node)

    def sx_call(self, ex, args, kw, node):
        return Applied(self.term, tuple(args), dict(kw))

    def sx_compare(self, ex, op, other, node, reflected):
        if isinstance(other, CallableV) and op in ("Eq", "NotEq"):
            e = self.term == other.term
            return e if op == "Eq" else z3.Not(e)
        return NotImplemented


class NameOf:
    """func.__name__ : opaque string; tests on it are unknown (both outcomes explored)"""

    def __init__(self, term):
        self.term = term

    def sx_in(self, ex, container, node):
        return ex.ctx.bool("name_in")

    def sx_compare(self, ex, op, other, node, reflected):
        if isinstance(other, str):
            return ex.ctx.bool("name_eq")
        return NotImplemented


class Applied:
    def __init__(self, f, args, kw):
        self.f, self.args, self.kw = f, args, kw


class OpaqueArgs:
    """*inputs / **kwargs handed through unchanged"""

    def __init__(self, label):
        self.label = label

    def sx_iter(self, ex):
        return [self]


def _c(v, node=None):
    if isinstance(v, CallableV):
        return v.term
    raise U("dictionary key is not a callable", node)


class MethodStr:
    """the `method` argument of __array_ufunc__: one of the strings numpy passes"""

    def __init__(self, value):
        self.value = value

    def sx_compare(self, ex, op, other, node, reflected):
        if isinstance(other, str) and op in ("Eq", "NotEq"):
            r = (self.value == other)
            return r if op == "Eq" else (not r)
        return NotImplemented


def _install_name_membership(reg):
    """`fname in ("save", ...)` on an opaque name: unknown -> both branches are explored."""
    pass


class ArrayUfunc(Contract):
    name = "numpoly.ndpoly.__array_ufunc__"
    relpath = "numpoly/baseclass.py"
    func = "__array_ufunc__"
    cls = "ndpoly"
    properties = ("C08",)
    assumptions = ("A5: numpy calls __array_ufunc__(ufunc, method, *inputs, **kwargs) with method in "
                   "{'__call__','reduce','accumulate','outer','at','reduceat'}",)
    METHODS = ["__call__", "reduce", "accumulate", "outer", "at", "reduceat", "some_future_method"]

    def cases(self):
        for m in self.METHODS:
            def make_env(ex, m=m):
                ex.maps = dict(R=CallMap("REDUCE_MAPPINGS"), A=CallMap("ACCUMULATE_MAPPINGS"), U=CallMap("UFUNC_COLLECTION"))
                ex.reg.constants["numpoly.UFUNC_COLLECTION"] = ex.maps["U"]
                uf = z3.Const("ufunc", Callable_)
                ex.ufunc = uf
                ex.inputs, ex.kwargs = OpaqueArgs("inputs"), {"**": OpaqueArgs("kwargs")}
                kwv = _Kw(ex.kwargs["**"])
                kwv.out = _OutArg(ex)            # what the caller gave as `out` (if anything): kind and length symbolic
                return {"self": object(), "ufunc": CallableV(uf), "method": MethodStr(m), "inputs": (ex.inputs,),
                        "kwargs": kwv, "REDUCE_MAPPINGS": ex.maps["R"], "ACCUMULATE_MAPPINGS": ex.maps["A"]}

            def check(out, m=m):
                ex = out.ex
                R, A, Uc = ex.maps["R"], ex.maps["A"], ex.maps["U"]
                uf = ex.ufunc
                if m == "__call__":
                    supported, target = Uc.has(uf), uf
                elif m == "reduce":
                    supported, target = z3.And(R.has(uf), Uc.has(R.at(uf))), R.at(uf)
                elif m == "accumulate":
                    supported, target = z3.And(A.has(uf), Uc.has(A.at(uf))), A.at(uf)
                else:
                    supported, target = z3.BoolVal(False), uf
                if out.kind == "raise":
                    ex.oblige("raises.only_FeatureNotSupported", z3.BoolVal(out.exc == "FeatureNotSupported"), "post",
                              note="unsupported ufunc / ufunc method must raise FeatureNotSupported and nothing else")
                    ex.oblige("raises.only_if_unsupported", z3.Not(supported), "post")
                    return
                ex.oblige("post.supported", supported, "post", note="returns only for registered ufuncs / mapped methods")
                res = out.value
                ok = isinstance(res, Applied)
                ex.oblige("post.result_is_call_of_registered_implementation", z3.BoolVal(ok), "post")
                if ok:
                    ex.oblige("post.implementation", res.f == Uc.at(target), "post")
                    kwobj = res.kw.get("**")
                    ex.oblige("post.arguments_forwarded_unchanged",
                              z3.BoolVal(res.args == (ex.inputs,) and getattr(kwobj, "tok", None) is ex.kwargs["**"]
                                         and len(res.kw) == 1), "post")
                    # the one permitted adjustment: numpy's 1-tuple `out=(x,)` reaches the implementation as x itself
                    rw, o = getattr(kwobj, "rewrites", {}), getattr(kwobj, "out", None)
                    if rw:
                        okr = set(rw) == {"out"} and isinstance(rw["out"], _OutItem) and rw["out"].of is o
                        ex.oblige("post.only_a_single_output_tuple_is_unwrapped", z3.BoolVal(bool(okr)) if not okr else
                                  z3.And(o.is_tuple, o.length == 1), "post",
                                  note="out=(x,) -> out=x; any other keyword, and an out that is not a 1-tuple, is handed through as it is")
                    elif o is not None:
                        ex.oblige("post.a_single_output_tuple_is_unwrapped", z3.Not(z3.And(o.is_tuple, o.length == 1)), "post",
                                  note="the registered functions take the output array itself (in-place operators, numpy.f(..., out=x))")
                    want = {"axis": 0} if m in ("reduce", "accumulate") else {}
                    ex.oblige("post.default_axis_of_ufunc_method", z3.BoolVal(getattr(kwobj, "defaults", None) == want), "post",
                              note="ufunc.reduce/accumulate work along axis 0 unless an axis is given; nothing else is defaulted")
            yield Case(m, make_env, check)

    def apply(self, ex, args, kw, node):
        raise U("__array_ufunc__ as a callee", node)


class _OutArg:
    """kwargs.get("out"): whatever the caller gave as output target - None / an array / a tuple of arrays (symbolic kind)"""

    def __init__(self, ex):
        self.is_tuple = ex.ctx.bool("out_is_a_tuple")
        self.length = ex.ctx.int("len_out")
        ex.ctx.assume(self.length >= 0)

    def sx_isinstance(self, ex, name):
        return self.is_tuple if name == "tuple" else None

    def sx_len(self, ex):
        return self.length

    def sx_getitem(self, ex, idx, node):
        if idx == 0:
            ex.oblige(f"pre({ex.site('out_item')}).tuple_with_an_element", z3.And(self.is_tuple, self.length >= 1), "index", node)
            return _OutItem(self)
        raise U("out[...] with this index", node)


class _OutItem:
    def __init__(self, of):
        self.of = of


class _Kw:
    """**kwargs object: opaque mapping handed through; `setdefault` calls, a look at `out` and its replacement are recorded"""
    is_dict = True

    def __init__(self, tok):
        self.tok = tok
        self.defaults = {}
        self.out = None
        self.rewrites = {}

    def sx_getattr(self, ex, attr, node):
        return V.BoundMethod(self, attr)

    def sx_method(self, ex, attr, args, kw, node):
        if attr == "setdefault" and len(args) == 2 and isinstance(args[0], str):
            self.defaults.setdefault(args[0], args[1])
            return None
        if attr == "get" and args == ["out"] and not kw:
            if self.out is None:
                self.out = _OutArg(ex)
            return self.out
        raise U(f"kwargs.{attr}", node)

    def sx_setitem(self, ex, idx, value, node):
        if isinstance(idx, str):
            self.rewrites[idx] = value
            return
        raise U("kwargs[...] = ... with this key", node)


class ArrayFunction(Contract):
    name = "numpoly.ndpoly.__array_function__"
    relpath = "numpoly/baseclass.py"
    func = "__array_function__"
    cls = "ndpoly"
    properties = ("C08",)
    assumptions = ("A5: numpy calls __array_function__(func, types, args, kwargs) for every function of its override protocol",)

    def cases(self):
        def make_env(ex):
            ex.F = CallMap("FUNCTION_COLLECTION")
            ex.reg.constants["numpoly.FUNCTION_COLLECTION"] = ex.F
            f = z3.Const("func", Callable_)
            ex.func = f
            ex.args_tok, ex.kw_tok = OpaqueArgs("args"), OpaqueArgs("kwargs")
            ex.reg.fn["logging.getLogger"] = lambda ex_, a, k, n: object()
            return {"self": object(), "func": CallableV(f), "types": object(), "args": (ex.args_tok,), "kwargs": _Kw(ex.kw_tok),
                    "__name__": "numpoly.baseclass"}

        def check(out):
            ex = out.ex
            F, f = ex.F, ex.func
            if out.kind == "raise":
                ex.oblige("raises.only_FeatureNotSupported", z3.BoolVal(out.exc == "FeatureNotSupported"), "post")
                ex.oblige("raises.only_if_unregistered", z3.Not(F.has(f)), "post")
                return
            ex.oblige("post.registered", F.has(f), "post",
                      note="an unregistered numpy function must raise FeatureNotSupported, never compute on raw storage")
            res = out.value
            ok = isinstance(res, Applied)
            ex.oblige("post.result_is_call_of_registered_implementation", z3.BoolVal(ok), "post")
            if ok:
                ex.oblige("post.implementation", res.f == F.at(f), "post")
                ex.oblige("post.arguments_forwarded_unchanged",
                          z3.BoolVal(res.args == (ex.args_tok,) and res.kw.get("**") is not None and
                                     getattr(res.kw.get("**"), "tok", None) is ex.kw_tok and len(res.kw) == 1), "post")
        yield Case("", make_env, check)

    def apply(self, ex, args, kw, node):
        raise U("__array_function__ as a callee", node)


# ---------------------------------------------------------------------- static registry enumeration
DIVISION_TRIO = {"numpy.true_divide": "poly_divide", "numpy.remainder": "poly_remainder", "numpy.divmod": "poly_divmod"}
OPERATOR_ROUTES = {
    "__truediv__": ("numpoly.poly_divide", ["self", "value"]), "__rtruediv__": ("numpoly.poly_divide", ["value", "self"]),
    "__div__": ("numpoly.poly_divide", ["self", "value"]), "__rdiv__": ("numpoly.poly_divide", ["value", "self"]),
    "__mod__": ("numpoly.poly_remainder", ["self", "value"]), "__rmod__": ("numpoly.poly_remainder", ["value", "self"]),
    "__divmod__": ("numpoly.poly_divmod", ["self", "value"]), "__rdivmod__": ("numpoly.poly_divmod", ["value", "self"]),
    "__eq__": ("numpoly.equal", ["self", "other"]), "__ne__": ("numpoly.not_equal", ["self", "other"]),
    "isconstant": ("numpoly.isconstant", ["self"]), "tonumpy": ("numpoly.tonumpy", ["self"]),
}


def _dotted(node):
    parts = []
    while isinstance(node, ast.Attribute):
        parts.append(node.attr)
        node = node.value
    if isinstance(node, ast.Name):
        parts.append(node.id)
        return ".".join(reversed(parts))
    return None


def read_registries(repo):
    """{numpy name -> (def name, relpath)} for the function and the ufunc protocol, from the decorators."""
    fun, ufn, problems = {}, {}, []
    for sub in ("array_function", "poly_function", "poly_function/divide", "construct", "utils", ""):
        d = os.path.join(repo, "numpoly", sub)
        if not os.path.isdir(d):
            continue
        for f in sorted(os.listdir(d)):
            if not f.endswith(".py"):
                continue
            rel = os.path.join("numpoly", sub, f)
            try:
                tree = ast.parse(open(os.path.join(repo, rel)).read())
            except SyntaxError:
                continue
            modconsts = {}
            for node in tree.body:
                if isinstance(node, ast.If):            # amax/amin: version-dependent `impls` list
                    for b in node.body:
                        if isinstance(b, ast.Assign) and isinstance(b.value, ast.List):
                            modconsts[b.targets[0].id] = b.value.elts
                if not isinstance(node, ast.FunctionDef):
                    continue
                for dec in node.decorator_list:
                    if not (isinstance(dec, ast.Call) and isinstance(dec.func, ast.Name)):
                        continue
                    kind = dec.func.id
                    if kind not in ("implements", "implements_function", "implements_ufunc"):
                        continue
                    elts = []
                    for a in dec.args:
                        if isinstance(a, ast.Starred) and isinstance(a.value, ast.Name) and a.value.id in modconsts:
                            elts.extend(modconsts[a.value.id])
                        else:
                            elts.append(a)
                    for a in elts:
                        name = _dotted(a)
                        if name is None:
                            problems.append((rel, node.lineno, "registration of a computed callable"))
                            continue
                        if kind in ("implements", "implements_function"):
                            if name in fun:
                                problems.append((rel, node.lineno, f"{name} registered twice for the function protocol"))
                            fun[name] = (node.name, rel)
                        if kind in ("implements", "implements_ufunc"):
                            if name in ufn:
                                problems.append((rel, node.lineno, f"{name} registered twice for the ufunc protocol"))
                            ufn[name] = (node.name, rel)
    return fun, ufn, problems


def exported_names(repo):
    """name -> def name for `numpoly.<name>` as exported through array_function/__init__ and poly_function/__init__."""
    out = {}
    for rel in ("numpoly/array_function/__init__.py", "numpoly/poly_function/__init__.py", "numpoly/poly_function/divide/__init__.py"):
        tree = ast.parse(open(os.path.join(repo, rel)).read())
        for node in tree.body:
            if isinstance(node, ast.ImportFrom):
                for a in node.names:
                    out[a.asname or a.name] = a.name
    return out


def static_obligations(repo):
    res = []
    fun, ufn, problems = read_registries(repo)
    for rel, ln, what in problems:
        res.append((f"static.registry.wellformed[{what}]", False, rel, ln))
    res.append(("static.registry.nonempty", len(fun) > 60 and len(ufn) > 30, "numpoly", 0))
    exp = exported_names(repo)
    # name consistency: numpy.f is implemented by what numpoly exports as f
    for proto, table in (("function", fun), ("ufunc", ufn)):
        for npname, (defname, rel) in sorted(table.items()):
            short = npname.split(".")[-1]
            if npname == "max" or npname == "min":
                short = npname
            if proto == "function" and npname in DIVISION_TRIO:
                ok = defname == DIVISION_TRIO[npname]
                res.append((f"static.registry.{proto}[{npname}].is_documented_poly_division", ok, rel, 0))
                continue
            ok = exp.get(short) == defname
            res.append((f"static.registry.{proto}[{npname}].implemented_by_numpoly_namesake", ok, rel, 0))
    # operator / method routing
    from engine.forwarders import forwarders
    fw = forwarders(repo)
    for meth, (target, args) in sorted(OPERATOR_ROUTES.items()):
        f = fw.get(meth)
        ok = f is not None and f["target"] == target and f["args"] == args and not f["kwargs"]
        res.append((f"static.method[{meth}].forwards_to[{target}({', '.join(args)})]", ok, "numpoly/baseclass.py",
                    f["lineno"] if f else 0))
    # every method of ndpoly that merely forwards to a numpoly function hands over EVERY one of its own parameters, each under the
    # keyword of the same name (or positionally), and names the function after itself (method spelling == function spelling, C08)
    for meth, f in sorted(fw.items()):
        if meth.startswith("__") or meth in OPERATOR_ROUTES:
            continue
        own = [p_ for p_ in f["params"] if p_ != "self"]
        handed = set(f["args"]) | set(f["kwargs"].values()) | set(f["star_kwargs"])
        ok_all = all(p_ in handed for p_ in own) and (not f.get("has_varkw") or f.get("varkw") in handed)
        ok_names = all(k == v for k, v in f["kwargs"].items())
        res.append((f"static.method[{meth}].hands_over_every_parameter", bool(ok_all), "numpoly/baseclass.py", f["lineno"]))
        res.append((f"static.method[{meth}].keywords_keep_their_names", bool(ok_names), "numpoly/baseclass.py", f["lineno"]))
    # ndpoly takes part in both protocols
    tree = ast.parse(open(os.path.join(repo, "numpoly/baseclass.py")).read())
    names = set()
    prio = None
    for node in tree.body:
        if isinstance(node, ast.ClassDef) and node.name == "ndpoly":
            for n in node.body:
                if isinstance(n, ast.FunctionDef):
                    names.add(n.name)
                if isinstance(n, ast.AnnAssign) and isinstance(n.target, ast.Name) and n.target.id == "__array_priority__":
                    try:
                        prio = ast.literal_eval(n.value)
                    except Exception:
                        prio = None
    res.append(("static.ndpoly.defines_both_protocol_hooks", {"__array_ufunc__", "__array_function__"} <= names,
                "numpoly/baseclass.py", 0))
    res.append(("static.ndpoly.array_priority_positive", isinstance(prio, int) and prio > 0, "numpoly/baseclass.py", 0))
    return res


CONTRACTS = [ArrayUfunc(), ArrayFunction()]
