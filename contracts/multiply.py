"""Contract for numpoly.array_function.multiply.multiply (properties C01, C12, C17, C20), both paths.

Coefficient-level specification.  Let the operands, after align_indeterminants, have exponent rows r1(i) (i < N1),
r2(j) (j < N2) and coefficients C1(i, .), C2(j, .).  For a row m of the result write
        Conv(m, idx) = sum over all pairs (i, j) with r1(i) + r2(j) = m of  C1(i, p1 idx) * C2(j, p2 idx)
(p1, p2: numpy's broadcast projections).  The ghost A(g, i, j, idx) below is the partial convolution sum over the pairs
(a, b) that precede (i, j) in the loop order, so Conv(G(g), .) = A(g, N1, 0, .).
Proved:
  * the rows of the filled polynomial are EXACTLY the distinct sums r1(i) + r2(j) (numpy.tile/repeat/unique axioms), in
    int64 so that nothing wraps before the constructor's range test;
  * fallback path (two nested loops over symbolic N1, N2, a Python set of the keys seen so far): inner and outer loop
    invariants   seen(g) -> C(g, .) = A(g, i, j, .),   not seen(g) -> A(g, i, j, .) = 0,   written(g) <-> seen(g),
    every pair before (i, j) is seen;  the key computed in uint32 arithmetic (modelled with wrap-around) is a field of the
    output and addresses the row of the sum; hence at exit every coefficient is written and equals Conv;
  * compiled path: the preconditions of the ASSUMED contract of cmultiply (same specification; Cython, cannot be rebuilt)
    are established by the `compiled` test (handled dtype equal to the field dtype, every code point a single byte);
  * result = clean_attributes of that polynomial, names of the aligned operands, dtype = numpy.result_type, broadcast shape,
    no operand written.
Precondition (what makes the constructor succeed, C20): every exponent sum is storable.  Bridge B9: a polynomial whose rows are
the distinct pair sums with coefficients Conv denotes the product of the denoted polynomials.
"""
from __future__ import annotations
import z3
from engine.contract import Contract, Case
from engine.sx import LoopSpec
from engine import values as V
from engine.values import U
from engine.logic import I, Idx, B, R, Shp, DT, Mono, expo, bshape, bok, proj, inshape
from engine.polymodel import Poly, Arr, ExpMat, NamesV, ValuesView, Region, result_type, frame_check
from engine.sortmodel import meq
from engine.mulmodel import madd, row_axioms, KeySet
from engine.codecmodel import prod_axioms, key_offset_of
from contracts.align import sym_polys
from contracts.construct import keyok, eok, DTypeSet, compiled_dtype
from contracts.dispatchfn import pmul


def conv_axioms(ex, g):
    """ghost partial convolution sums A(g, i, j, idx)"""
    ctx = ex.ctx
    A = g["A"]
    x1, x2, upos, S = g["x1"], g["x2"], g["upos"], g["S"]
    gg, i, j = (z3.Int(ctx.fresh(n)) for n in "gij")
    idx = z3.Const(ctx.fresh("idx"), Idx)
    term = lambda i, j, idx: x1.C(i, proj(idx, S, x1.shape)) * x2.C(j, proj(idx, S, x2.shape))
    g["term"] = term
    return [z3.ForAll([gg, idx], A(gg, 0, 0, idx) == 0),
            z3.ForAll([gg, i, j, idx], z3.Implies(z3.And(0 <= i, 0 <= j, j < x2.N), A(gg, i, j + 1, idx) == A(gg, i, j, idx) + z3.If(
                upos(i, j) == gg, term(i, j, idx), 0)), patterns=[z3.MultiPattern(A(gg, i, j + 1, idx), upos(i, j))]),
            z3.ForAll([gg, i, idx], z3.Implies(0 <= i, A(gg, i + 1, 0, idx) == A(gg, i, x2.N, idx)), patterns=[A(gg, i + 1, 0, idx)])]


def before(a, b, i, j):
    return z3.Or(a < i, z3.And(a == i, b < j))


def loop_invariant(ex, i, j):
    g = ex.ghost
    ctx = ex.ctx
    if "seen" not in g:
        # the set of written fields must exist before the first pair is visited (created once, outside both loops)
        return [("one_set_of_seen_fields_for_the_whole_double_loop", z3.BoolVal(False))]
    out_, seen, A, M, S, x1, x2, upos = g["out"], g["seen"], g["A"], g["M"], g["S"], g["x1"], g["x2"], g["upos"]
    a, b = z3.Int(ctx.fresh("a")), z3.Int(ctx.fresh("b"))
    return [
        ("seen_fields_hold_the_partial_sums", ctx.forall_range(0, M, lambda t: z3.Implies(seen.has(t), ctx.forall_idx(
            lambda idx: out_.C(t, idx) == A(t, i, j, idx), S)))),
        ("unseen_fields_have_no_contribution_yet", ctx.forall_range(0, M, lambda t: z3.Implies(z3.Not(seen.has(t)), ctx.forall_idx(
            lambda idx: A(t, i, j, idx) == 0, S)))),
        ("written_exactly_the_seen_fields", ctx.forall_range(0, M, lambda t: ctx.forall_idx(lambda idx: out_.init(t, idx) == seen.has(t), S))),
        ("every_earlier_pair_is_seen", z3.ForAll([a, b], z3.Implies(z3.And(0 <= a, a < x1.N, 0 <= b, b < x2.N, before(a, b, i, j)),
                                                                    seen.has(upos(a, b))), patterns=[upos(a, b)])),
        ("a_row_whose_witness_pair_is_earlier_is_seen", ctx.forall_range(0, M, lambda t: z3.Implies(
            before(g["usi"](t), g["usj"](t), i, j), seen.has(t)), pat=lambda t: g["usi"](t))),
    ]


class CMultiply(Contract):
    """ASSUMED contract of the compiled kernel numpoly.cmultiply (cfunctions/cmultiply.pyx, not rebuildable here):
    for uint32 exponent rows, handled coefficient dtype equal to the field dtype and single-byte code points it fills
    every field with the convolution sum (the same loop as the Python fallback, which IS verified)."""
    name, func, relpath, properties = "numpoly.cmultiply", "cmultiply", "numpoly/cfunctions/cmultiply.pyx", ("C01", "C12")

    def cases(self):
        return iter(())

    def apply(self, ex, args, kw, node):
        E1, E2, C1, C2, K, raw = args
        g = getattr(ex, "ghost", {})
        if not isinstance(raw, ValuesView) or raw.poly is not g.get("out"):
            raise U("cmultiply on this target", node)
        ctx = ex.ctx
        p = raw.poly
        x1, x2 = g["x1"], g["x2"]
        site = ex.site("cmultiply")
        ex.oblige(f"pre({site}).operand_attributes", z3.BoolVal(
            getattr(E1, "source", None) is x1 and getattr(E2, "source", None) is x2 and getattr(C1, "source", (None,))[0] is x1
            and getattr(C2, "source", (None,))[0] is x2), "precondition", node, note="exponents and coefficients of the two aligned operands, in order")
        ex.oblige(f"pre({site}).offset_is_KEY_OFFSET", z3.BoolVal(K == g["K"]), "precondition", node)
        ex.oblige(f"pre({site}).dtype_handled", compiled_dtype(p.dtype), "precondition", node,
                  note="other dtypes are silently skipped by the compiled setter: memory stays unwritten")
        ex.oblige(f"pre({site}).product_dtype_is_field_dtype", result_type(x1.dtype, x2.dtype) == p.dtype, "precondition", node)
        cc = getattr(p, "c_contiguous", None)
        ex.oblige(f"pre({site}).target_is_c_contiguous", cc if cc is not None else z3.Bool(ctx.fresh("c_contiguous_target")), "precondition", node,
                  note="the kernel is handed out_.values.ravel(): a view of the target only when the target is C-contiguous, a copy "
                       "(whose content is lost) otherwise")
        ex.oblige(f"pre({site}).code_points_fit_one_byte", ctx.forall_range(0, x1.N, lambda i: ctx.forall_range(0, x2.N, lambda j: ctx.forall_range(
            0, x1.D, lambda d: z3.And(expo(x1.row(i), d) + expo(x2.row(j), d) + g["K"] >= 1, expo(x1.row(i), d) + expo(x2.row(j), d) + g["K"] < 128)))),
            "precondition", node, note="sprintf('%c') writes one byte per exponent; 128.. is not valid UTF-8 on its own")
        ex.oblige(f"pre({site}).key_fits_the_256_byte_buffer", x1.D <= 255, "precondition", node,
                  note="cmultiply.pyx builds the key in `char key[256]` with one sprintf('%c') per indeterminate, each of which also "
                       "writes a terminating NUL: more than 255 indeterminates overflow the stack buffer (undefined behaviour, SIGSEGV)")
        ex.oblige(f"pre({site}).every_sum_is_a_field", ctx.forall_range(0, x1.N, lambda i: ctx.forall_range(0, x2.N, lambda j: z3.And(
            0 <= g["upos"](i, j), g["upos"](i, j) < p.N, meq(p.row(g["upos"](i, j)), madd(x1.row(i), x2.row(j)), p.D)))), "precondition", node)
        frame_check(ex, p.region, node, "cmultiply")
        A = g["A"]
        p._C = lambda t, idx: A(t, x1.N, 0, idx)
        p._init = None
        return None


class Multiply(Contract):
    name = "numpoly.multiply"
    relpath = "numpoly/array_function/multiply.py"
    func = "multiply"
    properties = ("C01", "C12", "C17", "C20")
    positional = ("x1", "x2", "out", "where")
    assumptions = ("B9: rows = distinct pair sums with convolution coefficients denote the product", "A1",
                   "assumed contract of the compiled cmultiply (same specification as the verified fallback loop)",
                   "precondition: every exponent sum is storable (otherwise the constructor raises: C20); where=True; out=None, or a target that "
                   "has exactly the fields of the product (any dtype, any memory layout, any previous content)")

    def _loops(self):
        def havoc_state(ex, env):
            g = ex.ghost
            if "seen" not in g or "out" not in g:
                return
            out_ = g["out"]
            cf, inf = ex.ctx.func("C_h", I, Idx, R), ex.ctx.func("init_h", I, Idx, B)
            out_._C = lambda t, idx: cf(t, idx)
            out_._init = lambda t, idx: inf(t, idx)
            sf = ex.ctx.func("seen_h", I, B)
            g["seen"].has = lambda t: sf(t)

        def outer_inv(ex, env, k):
            if "out" not in ex.ghost:
                return [("fill_state", z3.BoolVal(False))]
            return loop_invariant(ex, k, 0)

        def outer_havoc(ex, env, k):
            havoc_state(ex, env)
            ex.ghost["i"] = k

        def inner_inv(ex, env, k):
            return loop_invariant(ex, ex.ghost["i"], k)

        def inner_havoc(ex, env, k):
            havoc_state(ex, env)
            ex.ghost["j"] = k
        def outer_exit(ex, env):
            g = ex.ghost
            ctx = ex.ctx
            if "seen" not in g:
                return []
            M, seen, usi, usj, upos, x1, x2 = g["M"], g["seen"], g["usi"], g["usj"], g["upos"], g["x1"], g["x2"]
            l1 = ctx.forall_range(0, M, lambda t: z3.Implies(z3.And(0 <= usi(t), usi(t) < x1.N, 0 <= usj(t), usj(t) < x2.N,
                                                                   upos(usi(t), usj(t)) == t), seen.has(t)))
            l2 = ctx.forall_range(0, M, lambda t: seen.has(t))
            # (the postcondition in the form it is needed after the loop: proved here, in the small context of the loop exit)
            p, A, S = g["out"], g["A"], g["S"]
            l3 = ctx.forall_range(0, M, lambda t: ctx.forall_idx(lambda idx: z3.And(p.init(t, idx), p.C(t, idx) == A(t, x1.N, 0, idx)), S))
            return [("a_field_whose_witness_pair_exists_was_seen", l1), ("every_field_was_seen", l2),
                    ("every_field_written_with_its_convolution_sum", l3)]
        return {1: LoopSpec(outer_inv, outer_havoc, modifies=("expon1", "coeff1", "expon2", "coeff2", "key"), exit_lemmas=outer_exit),
                2: LoopSpec(inner_inv, inner_havoc, modifies=("expon2", "coeff2", "key"))}

    def cases(self):
        def make_env(ex):
            ctx = ex.ctx
            ps = sym_polys(ex, 2)
            for a in row_axioms(ctx) + prod_axioms(ctx):
                ctx.assume(a)
            ex.inputs = ps
            ex.ghost = {"K": key_offset_of(ex.mod.repo)}

            def after_ai(ex_, res):
                g = ex_.ghost
                x1, x2 = res
                g["x1"], g["x2"] = x1, x2
                g["S"] = bshape(x1.shape, x2.shape)
                # precondition (C20): every exponent sum is a storable exponent row
                ex_.ctx.assume(ex_.ctx.forall_range(0, x1.N, lambda i: ex_.ctx.forall_range(0, x2.N, lambda j: keyok(madd(x1.row(i), x2.row(j)), x1.D))))

            def after_new(ex_, p):
                g = ex_.ghost
                if "out" in g:
                    return
                lu = getattr(ex_, "last_pair_unique", None)
                if lu is None:
                    return
                g["out"] = p
                g["M"], g["upos"], g["usi"], g["usj"] = lu.pair_unique["M"], lu.pair_unique["upos"], lu.pair_unique["usi"], lu.pair_unique["usj"]
                g["A"] = ex_.ctx.func("A", I, I, I, Idx, R)
                for a in conv_axioms(ex_, g):
                    ex_.ctx.assume(a)
                ex_.fill_target = p
                ex_.field_hint = lambda ex__, key: (ex__.ghost["upos"](ex__.ghost["i"], ex__.ghost["j"])
                                                    if "i" in ex__.ghost and "j" in ex__.ghost else None)
            ex.hooks = {"after_align_indeterminants": after_ai, "after_ndpoly": after_new}

            def new_set(ex_):
                s = KeySet(ex_)
                ex_.ghost["seen"] = s
                return s
            ex.empty_set_factory = new_set
            return {"x1": ps[0], "x2": ps[1], "out": None, "where": True, "kwargs": {}, "COMPILED_DTYPES": DTypeSet()}

        def check(out):
            self._check(out)
        yield Case("", make_env, check, loops=self._loops())

        # ---- out= given: a target that has exactly the fields of the product (the rows numpy.unique finds for the pair sums, in
        # that order), the names of the aligned operands and the broadcast shape; its dtype, its layout in memory (C-contiguous
        # or not) and its previous content are arbitrary.  `init` is False to begin with: nothing of the previous content may be read.
        def make_env_out(ex):
            env = make_env(ex)
            ctx = ex.ctx
            target = Poly(ctx, "target", region=Region("out", "out= target"), init=lambda t, i: z3.BoolVal(False))
            ctx.assume(target.wf(ctx))
            ctx.assume(ctx.forall_range(0, target.N, lambda t: keyok(target.row(t), target.D)))
            ex.target = target

            def after_pu(ex_, U_):
                g = ex_.ghost
                if "out" in g or "x1" not in g:
                    return
                pu = U_.pair_unique
                x1 = g["x1"]
                g["out"] = target
                g["M"], g["upos"], g["usi"], g["usj"] = pu["M"], pu["upos"], pu["usi"], pu["usj"]
                g["A"] = ex_.ctx.func("A", I, I, I, Idx, R)
                for a in conv_axioms(ex_, g):
                    ex_.ctx.assume(a)
                # precondition on the target
                ex_.ctx.assume(z3.And(target.N == pu["M"], target.D == x1.D, target.names == x1.names, target.shape == g["S"],
                                      ex_.ctx.forall_range(0, pu["M"], lambda t: target.row(t) == U_.row(t))))
                ex_.fill_target = target
                ex_.field_hint = lambda ex__, key: (ex__.ghost["upos"](ex__.ghost["i"], ex__.ghost["j"])
                                                    if "i" in ex__.ghost and "j" in ex__.ghost else None)
            ex.hooks = dict(ex.hooks, after_pair_unique=after_pu)
            env["out"] = target
            return env

        def check_out(out):
            ex, ctx = out.ex, out.ctx
            g = ex.ghost
            ex.oblige(f"raises.nothing[{out.exc}:{out.value}]" if out.kind == "raise" else "raises.nothing", z3.BoolVal(out.kind == "return"), "post")
            if out.kind != "return":
                return
            r = out.value
            ex.oblige("post.the_target_is_returned", z3.BoolVal(r is ex.target and g.get("out") is ex.target), "post")
            if r is not ex.target or g.get("out") is not ex.target:
                return
            x1, S, A, M = g["x1"], g["S"], g["A"], g["M"]
            ex.oblige("post.every_field_of_the_target_holds_its_convolution_sum", ctx.forall_range(0, M, lambda t: ctx.forall_idx(
                lambda idx: z3.And(r.init(t, idx), r.C(t, idx) == A(t, x1.N, 0, idx)), S)), "post",
                note="every field written by this call (nothing of the previous content survives) with the sum of C1(i)*C2(j) over the "
                     "pairs whose exponents add up to its row - whatever the dtype and the memory layout of the target")
        yield Case("out=target", make_env_out, check_out, loops=self._loops())

    def _check(self, out):
        ex, ctx = out.ex, out.ctx
        g = ex.ghost
        ex.oblige(f"raises.nothing[{out.exc}:{out.value}]" if out.kind == "raise" else "raises.nothing", z3.BoolVal(out.kind == "return"), "post")
        if out.kind != "return":
            return
        r = out.value
        ok = isinstance(r, Poly) and hasattr(r, "from_attrs") and "out" in g
        ex.oblige("post.cleaned_filled_polynomial", z3.BoolVal(ok), "post")
        if not ok:
            return
        fa = r.from_attrs
        p, x1, x2, S, A, M, upos, usi, usj = g["out"], g["x1"], g["x2"], g["S"], g["A"], g["M"], g["upos"], g["usi"], g["usj"]
        okc = getattr(fa["E"], "source", None) is p and getattr(fa["C"], "source", (None,))[0] is p
        ex.oblige("post.result_is_cleaning_of_the_filled_polynomial", z3.BoolVal(okc), "post")
        if not okc:
            return
        ex.oblige("post.rows.every_pair_sum_is_a_row", ctx.forall_range(0, x1.N, lambda i: ctx.forall_range(0, x2.N, lambda j: z3.And(
            0 <= upos(i, j), upos(i, j) < p.N, meq(p.row(upos(i, j)), madd(x1.row(i), x2.row(j)), p.D)))), "post")
        ex.oblige("post.rows.every_row_is_a_pair_sum", z3.And(p.N == M, ctx.forall_range(0, p.N, lambda t: z3.And(
            0 <= usi(t), usi(t) < x1.N, 0 <= usj(t), usj(t) < x2.N, p.row(t) == madd(x1.row(usi(t)), x2.row(usj(t)))))), "post")
        Cs = V.as_seq(ex, fa["C"])
        ex.oblige("post.coefficients_are_the_convolution_sums", ctx.forall_range(0, p.N, lambda t: ctx.forall_idx(
            lambda idx: z3.And(Cs.item(t).init(idx), Cs.item(t).elem(idx) == A(t, x1.N, 0, idx)), S)), "post",
            note="every field written (C12) and equal to the sum of C1(i)*C2(j) over the pairs whose exponents add up to its row")
        ex.oblige("post.names_of_the_aligned_operands", z3.BoolVal(isinstance(fa["names"], NamesV)) if not isinstance(fa["names"], NamesV)
                  else fa["names"].term == x1.names, "post")
        ex.oblige("post.shape_is_the_broadcast_shape", r.shape == S, "post")
        ex.oblige("post.dtype_is_numpy_result_type", r.dtype == result_type(x1.dtype, x2.dtype), "post")
        ex.oblige("post.fresh", z3.BoolVal(r.region.owner == "fresh"), "post")
        # bridge B9 (premises above) composed with align_indeterminants' and clean_attributes' value clauses
        a, b = ex.inputs
        ctx.assume(ctx.forall_idx(lambda idx: r.val(idx) == pmul(x1.val(proj(idx, S, x1.shape)), x2.val(proj(idx, S, x2.shape))), S))
        ex.oblige("post.value_is_the_product", ctx.forall_idx(
            lambda idx: r.val(idx) == pmul(a.val(proj(idx, S, a.shape)), b.val(proj(idx, S, b.shape))), S), "post")

    def apply(self, ex, args, kw, node):
        from contracts.division import ValueLevel
        kw2 = {k: v for k, v in kw.items() if not (k == "out" and v is None) and not (k == "where" and v is True)}
        r = ValueLevel("multiply", pmul).apply(ex, list(args[:2]), kw2, node)
        r.product_of = (args[0], args[1])
        return r


class Square(Contract):
    """square(x) = multiply(x, x)"""
    name, func, relpath, properties = "numpoly.square", "square", "numpoly/array_function/square.py", ("C01",)
    positional = ("x", "out", "where")

    def cases(self):
        def make_env(ex):
            ps = sym_polys(ex, 1)
            ex.inputs = ps
            return {"x": ps[0], "out": None, "where": True, "kwargs": {}}

        def check(out):
            ex, ctx = out.ex, out.ctx
            x = ex.inputs[0]
            ex.oblige("raises.nothing", z3.BoolVal(out.kind == "return"), "post")
            if out.kind != "return":
                return
            r = out.value
            po = getattr(r, "product_of", None)
            ex.oblige("post.product_of_the_operand_with_itself", z3.BoolVal(po is not None and po[0] is x and po[1] is x), "post")
            ex.oblige("post.value", ctx.forall_idx(lambda i: r.val(i) == pmul(x.val(i), x.val(i)), x.shape), "post")
        yield Case("", make_env, check)

    def apply(self, ex, args, kw, node):
        raise U("square as a callee", node)


ppow = z3.Function("ppow", __import__("engine.logic", fromlist=["PV"]).PV, I, __import__("engine.logic", fromlist=["PV"]).PV)
pone = z3.Const("pone", __import__("engine.logic", fromlist=["PV"]).PV)


class PowerScalar(Contract):
    """power(x1, e) for a non-negative integer scalar exponent: repeated multiplication starting from the constant 1"""
    name, func, relpath, properties = "numpoly.power", "power", "numpoly/array_function/power.py", ("C01", "C20")
    positional = ("x1", "x2")
    assumptions = ("B10: the polynomial with the single all-zero exponent row and coefficient c denotes the constant c",
                   "scalar exponent given as a 0-d integer array (array-valued exponents: bounded check)",
                   "contract of multiply at value level (proved from its source under C01)")

    def _loops(self):
        def inv(ex, env, k):
            out, x1 = env["out"], ex.inputs[0]
            if not isinstance(out, Poly):
                return [("accumulator", z3.BoolVal(False))]
            return [("shape", out.shape == x1.shape),
                    ("rows_storable", ex.ctx.forall_range(0, out.N, lambda t: keyok(out.row(t), out.D))),
                    ("power_so_far", ex.ctx.forall_idx(lambda i: out.val(i) == ppow(x1.val(i), k), x1.shape))]

        def havoc(ex, env, k):
            ctx = ex.ctx
            x1 = ex.inputs[0]
            o = Poly(ctx, ctx.fresh("acc"), shape=x1.shape, region=Region("fresh", "accumulator"))
            ctx.assume(o.wf(ctx))
            env["out"] = o
        def ghost(ex, env, k):
            from engine.logic import unfold_at
            return [unfold_at(k)]
        return {1: LoopSpec(inv, havoc, modifies=("out", "_"), ghost=ghost)}

    def cases(self):
        def make_env(ex):
            ctx = ex.ctx
            ps = sym_polys(ex, 1)
            ex.inputs = ps
            PVs = ps[0].val(z3.Const("i0", Idx)).sort()
            v, k = z3.Const(ctx.fresh("v"), PVs), z3.Int(ctx.fresh("k"))
            ctx.assume(z3.ForAll([v], ppow(v, 0) == pone))
            from engine.logic import unfold_at
            # (unfolds only at marked k: a bare pattern ppow(v, k+1) would re-trigger on the ppow(v, k) it creates)
            ctx.assume(z3.ForAll([v, k], z3.Implies(k >= 0, ppow(v, k + 1) == pmul(ppow(v, k), v)),
                                 patterns=[z3.MultiPattern(ppow(v, k + 1), unfold_at(k))]))
            e = ctx.int("exponent")
            ctx.assume(e >= 0)
            ex.e = e
            from engine.polymodel import shp0, dt_int
            x2 = Arr(shp0, lambda i: z3.ToReal(e), "real", dt_int, Region("caller", "exponent"))
            x2.int_valued = e

            def after_fa(ex_, r):
                # B10 at the construction of the accumulator: single zero row, coefficient one
                fa = r.from_attrs
                from engine.logic import mzero
                E, C = fa["E"], fa["C"]
                okc = isinstance(C, list) and len(C) == 1 and isinstance(C[0], Arr) and isinstance(E, ExpMat)
                if not okc or getattr(ex_, "_acc_done", False):
                    return
                ex_._acc_done = True
                x1 = ex_.inputs[0]
                def is_one(i):
                    v = C[0].elem(i)
                    if isinstance(v, (bool, z3.BoolRef)):
                        return v if isinstance(v, z3.BoolRef) else z3.BoolVal(v)      # (a boolean unit: True)
                    return v == 1
                ex_.oblige("start.constant_one_of_the_operand_shape", z3.And(E.n == 1, mzero(E.row(0), E.D), C[0].shape == x1.shape,
                                                                            ex_.ctx.forall_idx(is_one, x1.shape)), "post")
                ex_.oblige("start.constant_one_has_the_dtype_of_the_operand", C[0].dtype == x1.dtype, "post",
                            note="x**0 is the constant one in the operand's coefficient type (C12); a unit of another type would be the result for "
                                 "exponent 0 and decide the promoted type of every product")
                ex_.ctx.assume(ex_.ctx.forall_idx(lambda i: r.val(i) == pone, x1.shape))
                ex_.ctx.assume(r.shape == x1.shape)
            ex.hooks = {"after_from_attributes": after_fa}
            return {"x1": ps[0], "x2": x2, "kwargs": {}}

        def check(out):
            ex, ctx = out.ex, out.ctx
            x1 = ex.inputs[0]
            ex.oblige(f"raises.nothing[{out.exc}:{out.value}]" if out.kind == "raise" else "raises.nothing", z3.BoolVal(out.kind == "return"), "post")
            if out.kind != "return":
                return
            r = out.value
            ok = isinstance(r, Poly)
            ex.oblige("post.polynomial", z3.BoolVal(ok), "post")
            if not ok:
                return
            ex.oblige("post.shape", r.shape == x1.shape, "post")
            ex.oblige("post.value_is_the_power", ctx.forall_idx(lambda i: r.val(i) == ppow(x1.val(i), ex.e), x1.shape), "post",
                      note="x**0 = 1 and x**(k+1) = x**k * x, element-wise")
        yield Case("scalar_exponent", make_env, check, loops=self._loops())

    def apply(self, ex, args, kw, node):
        from contracts.division import Power
        return Power().apply(ex, args, kw, node)


class ProdAlongAxis(Contract):
    """_prod(a, axis) (the core of numpoly.prod): the product of the slices a[..., k, ...] along `axis`, in index order.
    Proved for axis 0 and 1 (the index tuple (slice(None),)*axis + (k,) is built concretely), any extent >= 1."""
    name, func, relpath, properties = "numpoly._prod", "_prod", "numpoly/array_function/prod.py", ("C10",)
    positional = ("a", "axis")
    assumptions = ("B6 (indexing all coefficient columns alike takes whole elements); contract of multiply (proved under C01)",
                   "axis in {0, 1} enumerated; extent along the axis >= 1")

    def _loops(self):
        def inv(ex, env, k):
            out = env["out"]
            if not isinstance(out, Poly):
                return [("accumulator", z3.BoolVal(False))]
            g = ex.g
            return [("shape", out.shape == g["S1"]),
                    ("rows_storable", ex.ctx.forall_range(0, out.N, lambda t: keyok(out.row(t), out.D))),
                    ("product_of_the_first_k_slices", ex.ctx.forall_idx(lambda j: out.val(j) == g["PP"](k + 1, j), g["S1"]))]

        def havoc(ex, env, k):
            ctx = ex.ctx
            o = Poly(ctx, ctx.fresh("acc"), shape=ex.g["S1"], region=Region("fresh", "accumulator"))
            ctx.assume(o.wf(ctx))
            env["out"] = o
        def ghost(ex, env, k):
            from engine.logic import unfold_at
            return [unfold_at(k), unfold_at(k + 1)]
        return {1: LoopSpec(inv, havoc, modifies=("out", "idx"), ghost=ghost)}

    def cases(self):
        for ax in (0, 1):
            def make_env(ex, ax=ax):
                from engine.polymodel import take_index, drop_axis, extent, imap, index_axioms
                from engine.logic import ndim, PV
                ctx = ex.ctx
                ps = sym_polys(ex, 1)
                for a_ in index_axioms(ctx):
                    ctx.assume(a_)
                A = ps[0]
                ex.inputs = ps
                S = A.shape
                ctx.assume(z3.And(ndim(S) > ax, extent(S, ax) >= 1))
                S1 = drop_axis(S, ax)
                PP = ctx.func("PP", I, Idx, PV)
                k, j = z3.Int(ctx.fresh("k")), z3.Const(ctx.fresh("j"), Idx)
                sl = lambda k, j: A.val(imap(j, S, take_index(z3.IntVal(ax), k)))
                ctx.assume(z3.ForAll([j], PP(1, j) == sl(0, j)))
                from engine.logic import unfold_at
                ctx.assume(z3.ForAll([k, j], z3.Implies(k >= 1, PP(k + 1, j) == pmul(PP(k, j), sl(k, j))),
                                     patterns=[z3.MultiPattern(PP(k + 1, j), unfold_at(k))]))
                ex.g = dict(S1=S1, PP=PP, ax=ax, n=extent(S, ax))
                return {"a": A, "axis": ax}

            def check(out, ax=ax):
                ex, ctx = out.ex, out.ctx
                g = ex.g
                ex.oblige(f"raises.nothing[{out.exc}:{out.value}]" if out.kind == "raise" else "raises.nothing", z3.BoolVal(out.kind == "return"), "post")
                if out.kind != "return":
                    return
                r = out.value
                ok = isinstance(r, Poly)
                ex.oblige("post.polynomial", z3.BoolVal(ok), "post")
                if not ok:
                    return
                ex.oblige("post.shape_without_the_axis", r.shape == g["S1"], "post")
                ex.oblige("post.value_is_the_product_of_all_slices_along_the_axis", ctx.forall_idx(
                    lambda j: r.val(j) == g["PP"](g["n"], j), g["S1"]), "post",
                    note="PP(1) = slice 0, PP(k+1) = PP(k) * slice k: every slice exactly once, in index order")
            yield Case(f"axis={ax}", make_env, check, loops=self._loops())

    def apply(self, ex, args, kw, node):
        """_prod(a, axis=k) at a call site, k a literal 0 or 1: the postcondition proved above"""
        from engine.polymodel import take_index, drop_axis, extent, imap
        from engine.logic import ndim, PV, unfold_at
        b = dict(zip(self.positional, args))
        b.update(kw)
        A, ax = b.get("a"), b.get("axis")
        if not isinstance(A, Poly) or not (isinstance(ax, int) and not isinstance(ax, bool) and ax in (0, 1)) or set(b) != {"a", "axis"}:
            raise U("_prod at a call site in this form", node)
        ctx = ex.ctx
        site = ex.site("_prod")
        S = A.shape
        ex.oblige(f"pre({site}).axis_exists", ndim(S) > ax, "precondition", node)
        ex.oblige(f"pre({site}).at_least_one_slice", extent(S, ax) >= 1, "precondition", node,
                  note="the product starts from slice 0 of the axis")
        S1 = drop_axis(S, ax)
        PP = ctx.func("PP", I, Idx, PV)
        k, j = z3.Int(ctx.fresh("k")), z3.Const(ctx.fresh("j"), Idx)
        sl = lambda k, j: A.val(imap(j, S, take_index(z3.IntVal(ax), k)))
        ctx.assume(z3.ForAll([j], PP(1, j) == sl(0, j)))
        ctx.assume(z3.ForAll([k, j], z3.Implies(k >= 1, PP(k + 1, j) == pmul(PP(k, j), sl(k, j))),
                             patterns=[z3.MultiPattern(PP(k + 1, j), unfold_at(k))]))
        r = Poly(ctx, ctx.fresh("prod"), shape=S1, region=Region("fresh", "_prod"))
        r.owndata = z3.BoolVal(True)
        ctx.assume(r.wf(ctx))
        ctx.assume(ctx.forall_range(0, r.N, lambda t: keyok(r.row(t), r.D)))
        ctx.assume(ctx.forall_idx(lambda j: r.val(j) == PP(extent(S, ax), j), S1))
        r.prod_along = (A, ax, PP)
        return r


class ProdWrapper(Contract):
    """numpoly.prod(a, axis, dtype, out, keepdims): for a literal axis 0 or 1 the result is _prod(a, axis) of the operand itself
    (for keepdims=True and axis 0: that, with the axis put back as an extent-1 axis); out must be None."""
    name, func, relpath, properties = "numpoly.prod", "prod", "numpoly/array_function/prod.py", ("C10", "C05")
    positional = ("a", "axis", "dtype", "out", "keepdims")
    assumptions = ("axis given as a literal 0 or 1 (axis=None, negative axes and tuples of axes: bounded check); contract of _prod (proved)",
                   "B11: the product of the entries q_d ** e_d of `indeterminants ** row` along axis 0 is the monomial with that exponent "
                   "row (definition of pmono; used by the division loop)")

    def cases(self):
        for ax, kd in ((0, False), (1, False), (0, True)):
            def make_env(ex, ax=ax, kd=kd):
                from engine.polymodel import extent, index_axioms
                from engine.logic import ndim
                ctx = ex.ctx
                ps = sym_polys(ex, 1)
                for a_ in index_axioms(ctx):
                    ctx.assume(a_)
                A = ps[0]
                ex.inputs = ps
                ctx.assume(z3.And(ndim(A.shape) > ax, extent(A.shape, ax) >= 1))
                return {"a": A, "axis": ax, "dtype": None, "out": None, "keepdims": kd, "kwargs": {}}

            def check(out, ax=ax, kd=kd):
                from engine.polymodel import index_newaxis
                ex, ctx = out.ex, out.ctx
                A = ex.inputs[0]
                ex.oblige(f"raises.nothing[{out.exc}:{out.value}]" if out.kind == "raise" else "raises.nothing", z3.BoolVal(out.kind == "return"), "post")
                if out.kind != "return":
                    return
                r = out.value
                core = r
                if kd:
                    io = getattr(r, "item_of", None)
                    okk = io is not None and z3.eq(io[1].term, index_newaxis)
                    ex.oblige("post.keepdims_puts_the_axis_back", z3.BoolVal(bool(okk)), "post")
                    if not okk:
                        return
                    core = io[0]
                pa = getattr(core, "prod_along", None)
                ex.oblige("post.product_along_the_given_axis_of_the_operand", z3.BoolVal(pa is not None and pa[0] is A and pa[1] == ax), "post",
                          note="one application of _prod, on the operand itself, along exactly the requested axis")
            yield Case(f"axis={ax},keepdims={kd}", make_env, check)

    def apply(self, ex, args, kw, node):
        from contracts.division import Prod
        return Prod().apply(ex, args, kw, node)


CONTRACTS = [CMultiply(), Multiply(), Square(), PowerScalar(), ProdAlongAxis(), ProdWrapper()]
