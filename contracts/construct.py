"""Contracts for numpoly/construct/clean.py and from_attributes.py (properties C03, C12; every
operation ends in polynomial_from_attributes, so these carry WF and definedness for all of them).

Representation-level statements (rows = exponent rows as Mono values of width D):
  keeprule(t)  := any(C_t != 0)  or  row t is all zero          ("drop exactly the all-zero non-constant terms")
  used(d)      := some row has a non-zero entry in column d      ("unused names")
"""
from __future__ import annotations
import z3
from engine.contract import Contract, Case, raise_
from engine.sx import LoopSpec
from engine import values as V
from engine.values import U
from engine.logic import I, Idx, B, R, Mono, Shp, DT, Name, inshape, expo, mzero, ndim
from engine.polymodel import iszero
from engine.polymodel import (Poly, Arr, ExpMat, MonoRow, NamesV, Region, Names, nlen, nat, shape_axioms, mono_axioms,
                              mono_zero, has_duplicate_rows, DTypeV, ShapeV, shp0, dt_int, as_dtype, ColSel)
from engine.sortmodel import meq, order_axioms
from engine.optmodel import ovbool, okey


def sym_attrs(ex, base="in", n=None, D=None):
    """Symbolic (exponents, coefficients) attribute pair: n rows of width D, n coefficient arrays of one shape/dtype."""
    ctx = ex.ctx
    n = n if n is not None else ctx.int(f"n_{base}")
    D = D if D is not None else ctx.int(f"D_{base}")
    rf = ctx.func(f"row_{base}", I, Mono)
    cf = ctx.func(f"C_{base}", I, Idx, R)
    shape = ctx.const(f"shape_{base}", Shp)
    dtf = ctx.func(f"dtype_{base}", I, DT)          # every coefficient array may carry its own dtype
    dt = lambda t: dtf(t)
    E = ExpMat(n, D, lambda t: rf(t), Region("caller", "exponents"), dt_int)
    C = V.Seq(n, lambda t: in_arr(ctx, shape, cf, dt(t), t, base), "list")
    return E, C, (n, D, rf, cf, shape, dt)


def in_arr(ctx, shape, cf, dt, t, base="in"):
    """coefficient array t handed in by the caller: unknown memory layout (flags are functions of t)"""
    from engine.polymodel import FlagsV
    a = Arr(shape, lambda i, t=t: cf(t, i), "real", dt, Region("caller", "coefficient"))
    cc = z3.Function(f"c_contiguous_{base}", I, B)
    wr = z3.Function(f"writeable_{base}", I, B)
    a._flags = FlagsV(None, cc(t), wr(t))
    return a


def keeprule(ctx, cf, rf, D, shape, t):
    i = z3.Const(ctx.fresh("i"), Idx)
    return z3.Or(z3.Exists([i], z3.And(inshape(i, shape), cf(t, i) != 0)), mzero(rf(t), D))


class RemoveRedundantCoefficients(Contract):
    name = "numpoly.remove_redundant_coefficients"
    relpath = "numpoly/construct/clean.py"
    func = "remove_redundant_coefficients"
    properties = ("C03",)
    positional = ("exponents", "coefficients")

    def cases(self):
        def make_env(ex):
            ctx = ex.ctx
            for a in shape_axioms(ctx) + mono_axioms(ctx):
                ctx.assume(a)
            E, C, sym = sym_attrs(ex)
            n, D = sym[0], sym[1]
            ctx.assume(n >= 1)
            ctx.assume(D >= 1)
            ex.sym = sym
            return {"exponents": E, "coefficients": C}

        def check(out):
            ex, ctx = out.ex, out.ctx
            n, D, rf, cf, shape, dt = ex.sym
            ex.oblige("raises.nothing", z3.BoolVal(out.kind == "return"), "post")
            if out.kind != "return":
                return
            res = out.value
            ok = isinstance(res, tuple) and len(res) == 2 and isinstance(res[0], ExpMat)
            ex.oblige("post.returns_pair", z3.BoolVal(ok), "post")
            if not ok:
                return
            E2, C2 = res
            rule = lambda t: keeprule(ctx, cf, rf, D, shape, t)
            if isinstance(C2, list):
                # fallback branch: nothing kept -> the zero polynomial
                ex.oblige("post.empty.nothing_satisfies_rule", ctx.forall_range(0, n, lambda t: z3.Not(rule(t))), "post",
                          note="the single-zero-term fallback is only legal when every term is an all-zero non-constant term")
                ex.oblige("post.empty.single_zero_row", z3.And(E2.n == 1, E2.D == D, mzero(E2.row(0), D)), "post")
                okc = len(C2) == 1 and isinstance(C2[0], Arr)
                ex.oblige("post.empty.single_coefficient", z3.BoolVal(okc), "post")
                if okc:
                    ex.oblige("post.empty.zero_coefficient_same_shape_dtype",
                              z3.And(C2[0].shape == shape, C2[0].dtype == dt(0),
                                     ctx.forall_idx(lambda i: iszero(C2[0].elem(i)), shape)), "post")
                return
            flt = getattr(ex, "last_filter", None)
            okf = flt is not None and isinstance(C2, V.Seq)
            ex.oblige("post.kept.is_selection", z3.BoolVal(okf), "post")
            if not okf:
                return
            sel, selidx, M = flt.sel, flt.selidx, flt.n
            ex.oblige("post.kept.lengths", z3.And(E2.n == M, C2.n == M, E2.D == D, M >= 1), "post")
            ex.oblige("post.kept.rows_and_coefficients_are_the_selected_ones", ctx.forall_range(0, M, lambda j: z3.And(
                0 <= sel(j), sel(j) < n, E2.row(j) == rf(sel(j)),
                C2.item(j).shape == shape, C2.item(j).dtype == dt(sel(j)),
                ctx.forall_idx(lambda i: C2.item(j).elem(i) == cf(sel(j), i), shape))), "post")
            ex.oblige("post.kept.only_terms_satisfying_rule", ctx.forall_range(0, M, lambda j: rule(sel(j))), "post",
                      note="an all-zero non-constant term must not be kept")
            ex.oblige("post.kept.every_term_satisfying_rule", ctx.forall_range(0, n, lambda t: z3.Implies(
                rule(t), z3.And(0 <= selidx(t), selidx(t) < M, sel(selidx(t)) == t))), "post",
                note="a term with a non-zero coefficient, or the constant term, must not be dropped")
            ex.oblige("post.kept.order_preserved", ctx.forall_range2(0, M, lambda j, l: sel(j) < sel(l)), "post")
        yield Case("", make_env, check)

    def apply(self, ex, args, kw, node):
        E, C = args[0], args[1]
        if not isinstance(E, ExpMat):
            raise U("remove_redundant_coefficients of these values", node)
        ctx = ex.ctx
        site = ex.site("remove_redundant_coefficients")
        Cs = V.as_seq(ex, C, node)
        ex.oblige(f"pre({site}).same_length", Cs.n == E.n, "precondition", node)
        ex.oblige(f"pre({site}).nonempty", E.n >= 1, "precondition", node)
        c0 = Cs.item(z3.IntVal(0))
        shape, D, n = c0.shape, E.D, E.n
        rule = lambda t: z3.Or(z3.Not(ctx.forall_idx(lambda i: iszero(Cs.item(t).elem(i)), shape)), mzero(E.row(t), D))
        anykept = z3.Not(ctx.forall_range(0, n, lambda t: z3.Not(rule(t))))
        M = ctx.int("M")
        sel, selidx = ctx.func("sel", I, I), ctx.func("selidx", I, I)
        ctx.assume(z3.And(M >= 0, M <= n, (M >= 1) == anykept))
        ctx.assume(ctx.forall_range(0, M, lambda j: z3.And(0 <= sel(j), sel(j) < n, rule(sel(j)), selidx(sel(j)) == j),
                                    pat=lambda j: sel(j)))
        ctx.assume(ctx.forall_range2(0, M, lambda j, l: sel(j) < sel(l)))
        ctx.assume(ctx.forall_range(0, n, lambda t: z3.Implies(rule(t), z3.And(0 <= selidx(t), selidx(t) < M,
                                                                                sel(selidx(t)) == t)), pat=lambda t: selidx(t)))
        n2 = z3.If(M >= 1, M, 1)
        E2 = ExpMat(n2, D, lambda j: z3.If(M >= 1, E.row(sel(j)), mono_zero), Region("fresh"), E.dtype)
        def item2(j):
            from engine.polymodel import FlagsV
            srcarr = Cs.item(sel(j))
            a = Arr(shape, lambda i, j=j: z3.If(M >= 1, Cs.item(sel(j)).elem(i), z3.RealVal(0)), "real",
                    z3.If(M >= 1, srcarr.dtype, c0.dtype), Region("fresh"),
                    (lambda i, j=j: z3.Or(M < 1, Cs.item(sel(j)).init(i))))
            fl = srcarr.sx_getattr(ex, "flags", node)
            a._flags = FlagsV(None, z3.If(M >= 1, fl.c_contiguous, True), z3.If(M >= 1, fl.writeable, True))
            return a
        C2 = V.Seq(n2, item2, "list")
        E2.rrc = C2.rrc = dict(M=M, sel=sel, selidx=selidx, src=(E, Cs), rule=rule)
        return (E2, C2)


class RemoveRedundantNames(Contract):
    name = "numpoly.remove_redundant_names"
    relpath = "numpoly/construct/clean.py"
    func = "remove_redundant_names"
    properties = ("C03",)
    positional = ("exponents", "names")

    @staticmethod
    def used(ctx, E, d):
        return z3.Not(ctx.forall_range(0, E.n, lambda t: expo(E.row(t), d) == 0))

    def cases(self):
        for label, with_names in (("names", True), ("no_names", False)):
            def make_env(ex, with_names=with_names):
                ctx = ex.ctx
                for a in shape_axioms(ctx) + mono_axioms(ctx):
                    ctx.assume(a)
                E, C, sym = sym_attrs(ex)
                n, D = sym[0], sym[1]
                ctx.assume(n >= 1)
                ctx.assume(D >= 1)
                ex.sym = sym
                ex.E = E
                nm = ctx.const("names_in", Names)
                ctx.assume(nlen(nm) == D)
                ex.names_in = nm
                return {"exponents": E, "names": NamesV(nm) if with_names else None}

            def check(out, with_names=with_names):
                ex, ctx = out.ex, out.ctx
                n, D, rf = ex.sym[0], ex.sym[1], ex.sym[2]
                E = ex.E
                ex.oblige("raises.nothing", z3.BoolVal(out.kind == "return"), "post")
                if out.kind != "return":
                    return
                res = out.value
                ok = isinstance(res, tuple) and len(res) == 2 and isinstance(res[0], ExpMat) and \
                    getattr(res[0], "projected_from", None) is not None
                ex.oblige("post.returns_column_selection", z3.BoolVal(ok), "post")
                if not ok:
                    return
                E2, names2 = res
                src, sel = E2.projected_from
                used = lambda d: self.used(ctx, E, d)
                anyused = z3.Not(ctx.forall_range(0, D, lambda d: z3.Not(used(d))))
                ex.oblige("post.selection_of_the_input_matrix", z3.BoolVal(src is E), "post")
                ex.oblige("post.rows_kept", E2.n == n, "post")
                ex.oblige("post.keeps_exactly_used_columns", z3.Implies(anyused, ctx.forall_range(
                    0, D, lambda d: sel.used(d) == used(d))), "post",
                    note="a name is dropped iff no term involves it")
                ex.oblige("post.keeps_first_column_when_none_used", z3.Implies(z3.Not(anyused), ctx.forall_range(
                    0, D, lambda d: sel.used(d) == (d == 0))), "post",
                    note="at least one indeterminate must remain")
                ex.oblige("post.at_least_one_column", sel.Dn >= 1, "post")
                ex.oblige("post.distinct_rows_stay_distinct", ctx.forall_range2(0, n, lambda t, u: z3.Implies(
                    z3.Not(meq(rf(t), rf(u), D)), z3.Not(meq(E2.row(t), E2.row(u), sel.Dn)))), "post",
                    note="dropping all-zero columns cannot merge two different exponent rows")
                if with_names:
                    okn = isinstance(names2, NamesV) or (isinstance(names2, V.Seq) and False)
                    ex.oblige("post.names_tuple", z3.BoolVal(okn), "post")
                    if okn:
                        ex.oblige("post.names_follow_columns", z3.And(nlen(names2.term) == sel.Dn, ctx.forall_range(
                            0, sel.Dn, lambda j: nat(names2.term, j) == nat(ex.names_in, sel.col(j)))), "post")
                else:
                    ex.oblige("post.names_none", z3.BoolVal(names2 is None), "post")
            yield Case(label, make_env, check)

    def apply(self, ex, args, kw, node):
        E, names = args[0], args[1]
        if not isinstance(E, ExpMat):
            raise U("remove_redundant_names of these values", node)
        ctx = ex.ctx
        site = ex.site("remove_redundant_names")
        ex.oblige(f"pre({site}).width_positive", E.D >= 1, "precondition", node)
        usedf = ctx.func("used", I, B)
        anyused = z3.Not(ctx.forall_range(0, E.D, lambda d: z3.Not(self.used(ctx, E, d))))
        ctx.assume(ctx.forall_range(0, E.D, lambda d: usedf(d) == z3.If(anyused, self.used(ctx, E, d), d == 0),
                                    pat=lambda d: usedf(d)))
        sel = ColSel(ctx, E.D, lambda d: usedf(d))
        ctx.assume(sel.Dn >= 1)
        from engine.polymodel import project_columns
        E2 = project_columns(ex, E, sel)
        ctx.assume(ctx.forall_range2(0, E.n, lambda t, u: z3.Implies(
            z3.Not(meq(E.row(t), E.row(u), E.D)), z3.Not(meq(E2.row(t), E2.row(u), sel.Dn)))))
        if names is None:
            return (E2, None)
        if isinstance(names, NamesV):
            nm = ctx.const("names_sel", Names)
            ctx.assume(nlen(nm) == sel.Dn)
            ctx.assume(ctx.forall_range(0, sel.Dn, lambda j: nat(nm, j) == nat(names.term, sel.col(j))))
            return (E2, NamesV(nm))
        raise U("remove_redundant_names with these names", node)


CONTRACTS = [RemoveRedundantCoefficients(), RemoveRedundantNames()]


# ====================================================================== ndpoly.__new__ (assumed for now) and Cython
eok = z3.Function("eok", I, B)                   # a storable exponent value: e + KEY_OFFSET is a code point in (0, 0x10FFFF]


def keyok(m, D):
    """every entry of the width-D row is a storable exponent"""
    d = z3.Int("d!keyok")
    return z3.ForAll([d], z3.Implies(z3.And(0 <= d, d < D), eok(expo(m, d))))


def eok_axioms():
    """storable exponents: what ndpoly.__new__ accepts without raising (proved in contracts/codec.py:
    0 <= e from its range test, e + KEY_OFFSET <= 0x10FFFF from numpy's unicode field names)"""
    from engine.codecmodel import key_offset_of, MAXCP
    import os
    K = key_offset_of(os.environ.get("NUMPOLY_REPO"))
    e = z3.Int("e!eok")
    return [eok(0), z3.ForAll([e], eok(e) == z3.And(0 <= e, e + K <= MAXCP))]

default_names = z3.Function("default_names", I, Names)   # names generated from the `default_varname` option for width D
compiled_dtype = z3.Function("compiled_dtype", DT, B)    # bool, uint32, int64, float64, complex128


class DTypeSet:
    """COMPILED_DTYPES"""

    def sx_contains(self, ex, item, node):
        return compiled_dtype(as_dtype(ex, item, node))


def concrete_exponents(E):
    """a literal exponent list such as [(0,)] as an exponent matrix"""
    if isinstance(E, (list, tuple)) and E and all(isinstance(r, tuple) and r and all(isinstance(x, int) and x == 0 for x in r) for r in E) \
            and len(E) == 1:
        return ExpMat(1, len(E[0]), lambda t: mono_zero, Region("fresh"), dt_int)
    if isinstance(E, list) and len(E) == 1 and isinstance(E[0], MonoRow):
        row = E[0]
        return ExpMat(1, row.D, lambda t: row.m, Region("fresh"), dt_int)      # [one exponent row]
    return E


class NdpolyNew(Contract):
    """ndpoly(exponents, shape, names, dtype, allocation): fresh, UNINITIALISED storage with one field per row."""
    name = "numpoly.ndpoly"
    relpath = "numpoly/baseclass.py"
    func = "__new__"
    cls = "ndpoly"
    properties = ("C03", "C12", "C20")

    def cases(self):
        return iter(())            # body (uint32 <-> unicode field-name codec) verified separately, see contracts/codec.py

    def apply(self, ex, args, kw, node):
        ctx = ex.ctx
        site = ex.site("ndpoly")
        E = kw.get("exponents", args[0] if args else None)
        shape = kw.get("shape", ())
        names = kw.get("names")
        dtype = kw.get("dtype")
        allocation = kw.get("allocation")
        E = concrete_exponents(E)
        if not isinstance(E, ExpMat):
            raise U("ndpoly(...) with these exponents", node)
        if "order" in kw:
            pass
        ex.oblige(f"pre({site}).at_least_one_row", E.n >= 1, "precondition", node,
                  note="with no exponent row the constructor silently creates a constant term instead")
        ex.oblige(f"pre({site}).width_positive", E.D >= 1, "precondition", node)
        ex.oblige(f"pre({site}).rows_distinct", z3.Not(has_duplicate_rows(ctx, E)), "precondition", node,
                  note="duplicate exponent rows would be duplicate field names (numpy.dtype raises)")
        ex.oblige(f"pre({site}).exponents_storable", ctx.forall_range(0, E.n, lambda t: keyok(E.row(t), E.D)),
                  "precondition", node)
        if allocation is not None:
            a = allocation
            ex.oblige(f"pre({site}).allocation", z3.Or(a == E.n, a >= 2 * E.n), "precondition", node,
                      note="E.n < allocation < 2*E.n appends keys that are not fields of the storage")
        from engine.polymodel import names_distinct
        if names is None:
            nm = default_names(E.D)
            ctx.assume(nlen(nm) == E.D)
            ctx.assume(names_distinct(ctx, nm))
        elif isinstance(names, NamesV):
            nm = names.term
            ex.oblige(f"pre({site}).names_match_width", nlen(nm) == E.D, "precondition", node)
            ex.oblige(f"pre({site}).names_distinct", names_distinct(ctx, nm), "precondition", node)
        elif isinstance(names, Poly):
            nm = names.names
            ex.oblige(f"pre({site}).names_match_width", nlen(nm) == E.D, "precondition", node)
        elif isinstance(names, tuple) and names and all(isinstance(x, z3.ExprRef) and x.sort() == Name for x in names):
            # a literal tuple of names
            from engine.polymodel import nat
            nm = ctx.const("names_tuple", Names)
            ctx.assume(z3.And(nlen(nm) == len(names), *[nat(nm, d) == x for d, x in enumerate(names)]))
            ex.oblige(f"pre({site}).names_match_width", nlen(nm) == E.D, "precondition", node)
            ex.oblige(f"pre({site}).names_distinct", names_distinct(ctx, nm), "precondition", node)
        else:
            raise U("ndpoly(...) with these names", node)
        if isinstance(shape, tuple) and not shape:
            shp = shp0
        elif isinstance(shape, ShapeV):
            shp = shape.term
        elif isinstance(shape, tuple) and len(shape) == 1 and isinstance(shape[0], (int, z3.ArithRef)) and not isinstance(shape[0], bool):
            from engine.polymodel import prepend
            shp = prepend(shape[0], shp0)            # the 1-d shape (n,)
            ex.oblige(f"pre({site}).extent_not_negative", shape[0] >= 0 if not isinstance(shape[0], int) else z3.BoolVal(shape[0] >= 0),
                      "precondition", node)
        else:
            raise U("ndpoly(...) with this shape", node)
        dt = dt_int if dtype is None else as_dtype(ex, dtype, node)
        rows = E._row
        p = Poly(ctx, ctx.fresh("new"), N=E.n, D=E.D, row=rows, shape=shp, dtype=dt, names=nm,
                 region=Region("fresh", "ndpoly()"), init=lambda t, i: z3.BoolVal(False))
        p.owndata = z3.BoolVal(True)
        p.c_contiguous = z3.BoolVal(True)           # numpy.ndarray.__new__ allocates in C order
        p.allocation = allocation if allocation is not None else 2 * E.n
        p.built_from_exponents = E
        hook = getattr(ex, "hooks", {}).get("after_ndpoly") if isinstance(getattr(ex, "hooks", None), dict) else None
        if hook:
            hook(ex, p)
        return p


class CFromAttributes(Contract):
    """Assumed contract of the compiled numpoly.cfrom_attributes(coeffs, raw) (cfunctions/*.pyx cannot be
    rebuilt here): column t := coeffs[t] for every field, PROVIDED the dtype is one the compiled setter
    handles, equals the field dtype, and the (raveled) data is writable."""
    name = "numpoly.cfrom_attributes"
    relpath = "numpoly/cfunctions/cfrom_attributes.pyx"
    func = "cfrom_attributes"
    properties = ("C12",)

    def cases(self):
        return iter(())

    def apply(self, ex, args, kw, node):
        from engine.polymodel import ValuesView
        coeffs, raw = args
        if not isinstance(raw, ValuesView):
            raise U("cfrom_attributes on this target", node)
        p = raw.poly
        ctx = ex.ctx
        site = ex.site("cfrom_attributes")
        Cs = V.as_seq(ex, coeffs, node)
        ex.oblige(f"pre({site}).one_coefficient_per_field", Cs.n >= p.N, "precondition", node)
        ex.oblige(f"pre({site}).dtype_handled", compiled_dtype(p.dtype), "precondition", node,
                  note="other dtypes are silently skipped by the compiled setter: memory stays unwritten")
        ex.oblige(f"pre({site}).dtype_equals_field_dtype", ctx.forall_range(0, p.N, lambda t: Cs.item(t).dtype == p.dtype),
                  "precondition", node)
        ex.oblige(f"pre({site}).shapes", ctx.forall_range(0, p.N, lambda t: Cs.item(t).shape == p.shape), "precondition", node)

        def flags_ok(t):
            a = Cs.item(t)
            fl = a.sx_getattr(ex, "flags", node)
            return z3.Or(z3.Not(fl.c_contiguous), fl.writeable)
        ex.oblige(f"pre({site}).buffers_writable", ctx.forall_range(0, p.N, flags_ok), "precondition", node,
                  note="a contiguous read-only buffer makes the typed memoryview raise")
        from engine.polymodel import frame_check
        frame_check(ex, p.region, node, "cfrom_attributes")
        p._C = lambda t, i: Cs.item(t).elem(i)
        p._init = None
        return None


class PostprocessAttributes(Contract):
    name = "numpoly.postprocess_attributes"
    relpath = "numpoly/construct/clean.py"
    func = "postprocess_attributes"
    properties = ("C03", "C15")
    positional = ("exponents", "coefficients")

    def _env(self, ex, names_kind, rc_kind, rn_kind, empty):
        ctx = ex.ctx
        for a in shape_axioms(ctx) + mono_axioms(ctx) + order_axioms(ctx):
            ctx.assume(a)
        E, C, sym = sym_attrs(ex)
        n, D = sym[0], sym[1]
        ctx.assume(n >= 0)
        ctx.assume(D >= 1)
        ex.sym, ex.E, ex.C = sym, E, C
        ncoef = ctx.int("ncoef")             # number of coefficient arrays handed in (may differ from n)
        ctx.assume(ncoef >= 0)
        if empty:
            ctx.assume(ncoef == 0)
        else:
            ctx.assume(ncoef >= 1)
        ex.ncoef = ncoef
        cf, shape, dt = sym[3], sym[4], sym[5]
        Cin = V.Seq(ncoef, lambda t: in_arr(ctx, shape, cf, dt(t), t), "list")
        nm = ctx.const("names_in", Names)
        ex.names_in = nm
        names = {"none": None, "tuple": NamesV(nm)}[names_kind]
        rc = {"none": None, "sym": z3.Bool("retain_coefficients_arg")}[rc_kind]
        rn = {"none": None, "sym": z3.Bool("retain_names_arg")}[rn_kind]
        return {"exponents": E, "coefficients": Cin, "names": names, "retain_coefficients": rc, "retain_names": rn}

    def cases(self):
        for names_kind in ("none", "tuple"):
            for flags in ("none", "sym"):
                for empty in (False, True):
                    label = f"names={names_kind},retain={flags},{'no_coefficients' if empty else 'coefficients'}"

                    def make_env(ex, nk=names_kind, fl=flags, em=empty):
                        return self._env(ex, nk, fl, fl, em)

                    def check(out, nk=names_kind, fl=flags, em=empty):
                        self._check(out, nk, fl, em)
                    yield Case(label, make_env, check)

    def _check(self, out, names_kind, flags, empty):
        from contracts.option import get_state
        ex, ctx = out.ex, out.ctx
        n, D, rf, cf, shape, dt = ex.sym
        env = out.env
        st = get_state(ex)
        rc_arg, rn_arg = (None, None) if flags == "none" else (z3.Bool("retain_coefficients_arg"), z3.Bool("retain_names_arg"))
        rc = ovbool(st.cur.val[okey("retain_coefficients")]) if rc_arg is None else rc_arg
        rn = ovbool(st.cur.val[okey("retain_names")]) if rn_arg is None else rn_arg
        ncoef = ex.ncoef
        len_mismatch = z3.And(ncoef >= 1, ncoef != n)
        if out.kind == "raise":
            ex.oblige("raises.only_PolynomialConstructionError", z3.BoolVal(out.exc == "PolynomialConstructionError"), "post")
            from engine.polymodel import names_distinct
            # a rejection needs a reason: the attributes are ill-formed in one of the documented ways.  (Stated on the inputs, not on
            # the position of the raise statement in the source: inserting another validation must not disturb these clauses.  The
            # checks for a matrix that is not 2-d and for exponents that are not whole numbers cannot fire for the integer matrices
            # of the model: their paths are infeasible.)
            rows_in = ExpMat(n, D, lambda t: rf(t))
            reasons = [len_mismatch, has_duplicate_rows(ctx, rows_in)]
            if names_kind == "tuple":
                reasons += [nlen(ex.names_in) != D, z3.Not(names_distinct(ctx, ex.names_in))]
            ex.oblige("raises.only_for_ill_formed_attributes", z3.Or(*reasons), "post",
                      note="length mismatch, duplicate exponent rows, wrong number of names or a duplicated name")
            return
        res = out.value
        ok = isinstance(res, tuple) and len(res) == 3 and isinstance(res[0], ExpMat)
        ex.oblige("post.returns_triple", z3.BoolVal(ok), "post")
        if not ok:
            return
        E2, C2, names2 = res
        ex.final_E = E2
        ex.oblige("post.no_length_mismatch", z3.Not(len_mismatch), "post")
        ex.oblige("post.rows_pairwise_distinct", z3.Not(has_duplicate_rows(ctx, E2)), "post",
                  note="duplicate exponents must be rejected")
        # (from the property text, not from the order of the statements: "reject duplicate exponents" is about the attributes as
        #  they are handed in - a repeated exponent whose coefficient happens to be zero is still a repeated exponent, and whether
        #  it is noticed must not depend on retain_coefficients)
        ex.oblige("post.duplicate_exponents_as_given_are_rejected", z3.Not(has_duplicate_rows(ctx, ExpMat(n, D, lambda t: rf(t)))), "post",
                  note="accepted attributes have pairwise distinct exponent rows BEFORE any pruning")
        if names_kind == "tuple":
            ex.oblige("post.names_checked", z3.Implies(nlen(ex.names_in) >= 1, self._names_ok_in(ctx, ex)), "post",
                      note="duplicate names / wrong name count must be rejected")
        # --- which pruning ran (provenance of the returned matrix)
        proj = getattr(E2, "projected_from", None)
        Emid = proj[0] if proj else E2
        rrc = getattr(Emid, "rrc", None)
        ran_rrc = rrc is not None
        ran_rrn = proj is not None
        want_rrc = z3.And(z3.Not(rc), ncoef >= 1)
        ex.oblige("post.coefficient_pruning_follows_flag", z3.BoolVal(ran_rrc) == want_rrc, "post",
                  note="all-zero terms are dropped iff retain_coefficients (argument, else option) is off")
        ex.oblige("post.name_pruning_follows_flag", z3.BoolVal(ran_rrn) == z3.Not(rn), "post",
                  note="unused names are dropped iff retain_names (argument, else option) is off")
        if ran_rrc:
            ex.oblige("post.coefficient_pruning_applied_to_the_input", z3.BoolVal(rrc["src"][0] is ex.E), "post")
        else:
            ex.oblige("post.rows_are_the_input_rows", z3.And(Emid.n == n, ctx.forall_range(0, n, lambda t: Emid.row(t) == rf(t))), "post")
        Cs = C2 if isinstance(C2, V.Seq) else None
        if Cs is not None and not ran_rrc:
            ex.oblige("post.coefficients_are_the_input", z3.And(Cs.n == ncoef, ctx.forall_range(0, ncoef, lambda t: ctx.forall_idx(
                lambda i: Cs.item(t).elem(i) == cf(t, i), shape))), "post")
        if not ran_rrn and names_kind == "tuple":
            ex.oblige("post.names_unchanged", z3.BoolVal(isinstance(names2, NamesV) and names2.term is ex.names_in), "post")
        if ran_rrn and names_kind == "none":
            # no names given and unused columns dropped: the columns must have been numbered BEFORE the pruning, so that the
            # indeterminates that remain keep their number (C15: x0*x2**2 must not become x0*x1**2 because retain_names is off)
            from contracts.codec import sym_names
            from engine.polymodel import nat
            sel = proj[1]
            pref = st.cur.val[okey("default_varname")]
            okn = isinstance(names2, NamesV)
            ex.oblige("post.unnamed_columns_are_numbered_before_unused_ones_are_dropped", z3.BoolVal(False) if not okn else z3.And(
                nlen(names2.term) == sel.Dn, ctx.forall_range(0, sel.Dn, lambda j: nat(names2.term, j) == nat(sym_names(pref, Emid.D), sel.col(j)))),
                "post", note="kept column j carries the default name of its ORIGINAL position")

    def _names_ok_in(self, ctx, ex):
        from engine.polymodel import names_distinct
        Emid = ex.final_E.projected_from[0] if getattr(ex.final_E, "projected_from", None) else ex.final_E
        return z3.And(nlen(ex.names_in) == Emid.D, names_distinct(ctx, ex.names_in))

    def _names_ok(self, ctx, ex, env):
        from engine.polymodel import names_distinct
        return z3.And(nlen(ex.names_in) == ex.sym[1], names_distinct(ctx, ex.names_in))

    def _dup_final(self, ctx, ex):
        # on a raising path the duplicate test is part of the path condition; any matrix the code tested counts
        return z3.BoolVal(True)

    def apply(self, ex, args, kw, node):
        raise U("postprocess_attributes as a callee (from_attributes is verified against its own post)", node)


CONTRACTS = CONTRACTS + [NdpolyNew(), CFromAttributes(), PostprocessAttributes()]


# ====================================================================== postprocess as a callee
def postprocess_apply(ex, E, Cin, names, rc_arg, rn_arg, node):
    """Effect of postprocess_attributes at a call site (mirrors its verified postcondition): raises
    PolynomialConstructionError for the documented reasons, prunes according to the flags."""
    from contracts.option import get_state
    from engine.polymodel import names_distinct
    ctx = ex.ctx
    Cs = V.as_seq(ex, Cin, node) if not (isinstance(Cin, list) and not Cin) else None
    ncoef = Cs.n if Cs is not None else 0
    nonempty = simplify(ncoef >= 1) if Cs is not None else False
    if nonempty is not False:
        mismatch = z3.And(ncoef >= 1, ncoef != E.n) if nonempty is not True else (ncoef != E.n)
        if ex.decide(mismatch, "postprocess.len_mismatch"):
            raise_("PolynomialConstructionError", node, "length mismatch")
    st = get_state(ex)
    rc = rc_arg if rc_arg is not None else ovbool(st.cur.val[okey("retain_coefficients")])
    if rc_arg is None:
        ex.ctx.option_atoms.add("retain_coefficients")
    E1, C1 = E, Cs
    if Cs is not None:
        do_rrc = z3.And(z3.Not(rc) if not isinstance(rc, bool) else z3.BoolVal(not rc), ncoef >= 1)
        if ex.decide(do_rrc, "postprocess.rrc"):
            E1, C1 = RemoveRedundantCoefficients().apply(ex, [E, Cs], {}, node)
    nm = None
    if isinstance(names, Poly):
        nm = names.names
    elif isinstance(names, NamesV):
        nm = names.term
    elif names is not None:
        raise U("postprocess_attributes with these names", node)
    if nm is not None:
        if ex.decide(nlen(nm) >= 1, "postprocess.names_given"):
            if ex.decide(nlen(nm) != E1.D, "postprocess.name_count"):
                raise_("PolynomialConstructionError", node, "name count")
            if ex.decide(z3.Not(names_distinct(ctx, nm)), "postprocess.dup_names"):
                raise_("PolynomialConstructionError", node, "duplicate names")
    rn = rn_arg if rn_arg is not None else ovbool(st.cur.val[okey("retain_names")])
    if rn_arg is None:
        ex.ctx.option_atoms.add("retain_names")
    E2, names2 = E1, (NamesV(nm) if nm is not None else None)
    if ex.decide(z3.Not(rn) if not isinstance(rn, bool) else (not rn), "postprocess.rrn"):
        E2, names2 = RemoveRedundantNames().apply(ex, [E1, names2], {}, node)
    if ex.decide(has_duplicate_rows(ctx, E2), "postprocess.dup_rows"):
        # name the two equal rows (skolem constants); `pair_hints` of the contract under verification are tautologies
        # (fresh boolean == ground term) that let facts about the rows they came from be instantiated
        t0, s0 = ctx.int("dup_t"), ctx.int("dup_s")
        ctx.assume(z3.And(0 <= t0, t0 < s0, s0 < E2.n, meq(E2.row(t0), E2.row(s0), E2.D)))
        ex.dup_matrix = E2
        for h in getattr(ex, "pair_hints", []):
            ctx.assume(ctx.bool("hint") == h(t0, s0))
        raise_("PolynomialConstructionError", node, "duplicate rows")
    if E2 is not E and ex.decide(has_duplicate_rows(ctx, E), "postprocess.dup_rows_as_given"):
        # the duplicate test is made on the rows as they are handed in (verified: post.duplicate_exponents_as_given_are_rejected):
        # a repeated exponent is rejected even when the pruning above would have removed one of the two rows
        t0, s0 = ctx.int("dup_t"), ctx.int("dup_s")
        ctx.assume(z3.And(0 <= t0, t0 < s0, s0 < E.n, meq(E.row(t0), E.row(s0), E.D)))
        ex.dup_matrix = E
        for h in getattr(ex, "pair_hints", []):
            ctx.assume(ctx.bool("hint") == h(t0, s0))
        raise_("PolynomialConstructionError", node, "duplicate rows as given")
    return E2, C1, names2


def simplify(f):
    from engine.logic import simplify_bool
    return simplify_bool(f)


def _pp_apply(self, ex, args, kw, node):
    trip = postprocess_apply(
        ex, kw.get("exponents", args[0] if args else None), kw.get("coefficients", args[1] if len(args) > 1 else None),
        kw.get("names"), kw.get("retain_coefficients"), kw.get("retain_names"), node)
    hook = getattr(ex, "hooks", {}).get("after_postprocess")
    if hook:
        hook(ex, trip)
    return trip


PostprocessAttributes.apply = _pp_apply


class PolynomialFromAttributes(Contract):
    name = "numpoly.polynomial_from_attributes"
    relpath = "numpoly/construct/from_attributes.py"
    func = "polynomial_from_attributes"
    properties = ("C03", "C12", "C15", "C13")
    positional = ("exponents", "coefficients", "names", "dtype", "allocation", "retain_coefficients", "retain_names")
    assumptions = ("A1: numpy's cast of coefficient values to the requested dtype is treated as identity on values",
                   "B1: the abstract value val(p,i) depends only on the sparse coefficient map: dropping all-zero terms "
                   "and unused names does not change it (definition of the abstract view; embodied by conc/model.py)")

    def _loops(self):
        def inv(which):
            def f(ex, env, k):
                p = env["poly"]
                ctx = ex.ctx
                src = ex.ghost.get("C2")

                def val(t, i):
                    return z3.RealVal(0) if which == "zero" else src.item(t).elem(i)
                return [("columns_written_so_far", ctx.forall_range(0, k, lambda t: ctx.forall_idx(
                    lambda i: z3.And(p.init(t, i), p.C(t, i) == val(t, i)), p.shape)))]
            return f

        def havoc(ex, env, k):
            p = env["poly"]
            cf = ex.ctx.func("C_h", I, Idx, R)
            inf = ex.ctx.func("init_h", I, Idx, B)
            p._C = lambda t, i: cf(t, i)
            p._init = lambda t, i: inf(t, i)
        return {1: LoopSpec(inv("zero"), havoc, modifies=("key",)),
                2: LoopSpec(inv("copy"), havoc, modifies=("key", "values"))}

    def cases(self):
        matrix = [("none", "none", "none", False), ("tuple", "given", "sym", False), ("poly", "none", "none", False),
                  ("tuple", "none", "none", True), ("none", "given", "sym", True)]
        for names_kind, dtype_kind, flags, empty in matrix:
            for _once in (0,):
                for _once2 in (0,):
                    for _once3 in (0,):
                        label = f"names={names_kind},dtype={dtype_kind},retain={flags},{'no_coefficients' if empty else 'coefficients'}"

                        def make_env(ex, nk=names_kind, dk=dtype_kind, fl=flags, em=empty):
                            ctx = ex.ctx
                            for a in shape_axioms(ctx) + mono_axioms(ctx) + order_axioms(ctx):
                                ctx.assume(a)
                            E, C, sym = sym_attrs(ex)
                            n, D = sym[0], sym[1]
                            ctx.assume(n >= 1)
                            ctx.assume(D >= 1)
                            ctx.assume(ctx.forall_range(0, n, lambda t: keyok(sym[2](t), D)))
                            for a in eok_axioms():
                                ctx.assume(a)
                            ex.sym, ex.E, ex.C_in = sym, E, C
                            ex.ghost = {}
                            nm = ctx.const("names_in", Names)
                            ex.names_in = nm
                            ctx.assume(nlen(nm) >= 1)
                            if nk == "poly":
                                ctx.assume(nlen(nm) >= 1)
                                names = Poly(ctx, "namesrc", names=nm, region=Region("caller", "names"))
                            else:
                                names = {"none": None, "tuple": NamesV(nm)}[nk]
                            dt_arg = ctx.const("dtype_arg", DT)
                            ex.dtype_arg = dt_arg if dk == "given" else None
                            ex.hooks = {"after_postprocess": lambda ex_, trip: ex_.ghost.update(E2=trip[0], C2=trip[1], names2=trip[2])}
                            rc = None if fl == "none" else z3.Bool("retain_coefficients_arg")
                            rn = None if fl == "none" else z3.Bool("retain_names_arg")
                            return {"exponents": E, "coefficients": ([] if em else C), "names": names,
                                    "dtype": (DTypeV(dt_arg) if dk == "given" else None), "allocation": None,
                                    "retain_coefficients": rc, "retain_names": rn, "COMPILED_DTYPES": DTypeSet()}

                        def check(out, nk=names_kind, dk=dtype_kind, em=empty):
                            self._check(out, nk, dk, em)
                        yield Case(label, make_env, check, loops=self._loops())

    def _check(self, out, names_kind, dtype_kind, empty):
        ex, ctx = out.ex, out.ctx
        n, D, rf, cf, shape, dt = ex.sym
        if out.kind == "raise":
            ex.oblige("raises.only_PolynomialConstructionError", z3.BoolVal(out.exc == "PolynomialConstructionError"), "post")
            ex.oblige("raises.only_from_validation", z3.BoolVal("E2" not in ex.ghost), "post",
                      note="nothing may fail after the attributes were validated")
            return
        p = out.value
        ok = isinstance(p, Poly) and "E2" in ex.ghost
        ex.oblige("post.returns_ndpoly", z3.BoolVal(ok), "post")
        if not ok:
            return
        E2, C2, names2 = ex.ghost["E2"], ex.ghost["C2"], ex.ghost["names2"]
        ex.oblige("post.fresh", z3.BoolVal(p.region.owner == "fresh"), "post")
        ex.oblige("post.wellformed", p.wf(ctx), "post", note="C03: distinct rows, >=1 term, >=1 indeterminate, names match width")
        ex.oblige("post.rows_are_the_postprocessed_rows", z3.And(p.N == E2.n, p.D == E2.D,
                                                                 ctx.forall_range(0, E2.n, lambda t: p.row(t) == E2.row(t))), "post")
        if names_kind != "none":
            ex.oblige("post.names", z3.BoolVal(isinstance(names2, NamesV)) if names2 is None else p.names == names2.term, "post")
        if empty:
            ex.oblige("post.shape_scalar_without_coefficients", p.shape == shp0, "post")
            ex.oblige("post.dtype", p.dtype == (ex.dtype_arg if ex.dtype_arg is not None else dt_int), "post")
            ex.oblige("post.every_coefficient_defined_and_zero", ctx.forall_range(0, p.N, lambda t: ctx.forall_idx(
                lambda i: z3.And(p.init(t, i), p.C(t, i) == 0), p.shape)), "post",
                note="C12: no uninitialised memory, also when there are no coefficients at all")
            return
        Cs = V.as_seq(ex, C2)
        ex.oblige("post.shape", p.shape == shape, "post")
        from engine.polymodel import promoted_dtype
        ex.oblige("post.dtype", p.dtype == (ex.dtype_arg if ex.dtype_arg is not None else promoted_dtype(ex, ex.C_in)), "post",
                  note="requested dtype, else numpy's common type of ALL coefficient arrays handed in (as numpy.array([...]) would "
                       "choose): no term is truncated to the type of the first one and the retain options cannot change it (C12, C15)")
        ex.oblige("post.every_coefficient_defined", ctx.forall_range(0, p.N, lambda t: ctx.forall_idx(
            lambda i: p.init(t, i), p.shape)), "post", note="C12: no uninitialised memory is returned")
        ex.oblige("post.coefficient_values", ctx.forall_range(0, p.N, lambda t: ctx.forall_idx(
            lambda i: p.C(t, i) == Cs.item(t).elem(i), p.shape)), "post")

    # ------------------------------------------------------------------ as a callee
    def apply(self, ex, args, kw, node):
        ctx = ex.ctx
        b = dict(zip(self.positional, args))
        b.update(kw)
        E, Cin = b.get("exponents"), b.get("coefficients")
        E = concrete_exponents(E)
        if isinstance(E, V.Seq):
            probe = E.item(z3.Int(ctx.fresh("probe")))
            if isinstance(probe, MonoRow):
                E = ExpMat(E.n, probe.D, lambda t, E=E: E.item(t).m, Region("fresh"), dt_int)
        if not isinstance(E, ExpMat):
            raise U("polynomial_from_attributes with these exponents", node)
        site = ex.site("polynomial_from_attributes")
        ex.oblige(f"pre({site}).exponents_storable", ctx.forall_range(0, E.n, lambda t: keyok(E.row(t), E.D)),
                  "precondition", node, note="every exponent must be a representable storage key")
        E2, C2, names2 = postprocess_apply(ex, E, Cin, b.get("names"), b.get("retain_coefficients"), b.get("retain_names"), node)
        if C2 is None:
            raise U("polynomial_from_attributes without coefficients at a call site", node)
        ex.oblige(f"pre({site}).at_least_one_term", E2.n >= 1, "precondition", node)
        c0 = C2.item(z3.IntVal(0))
        ex.oblige(f"pre({site}).coefficients_share_shape", ctx.forall_range(0, C2.n, lambda t: C2.item(t).shape == c0.shape),
                  "precondition", node)
        ex.oblige(f"pre({site}).coefficients_defined", ctx.forall_range(0, C2.n, lambda t: ctx.forall_idx(
            lambda i: C2.item(t).init(i), c0.shape)), "precondition", node,
            note="C12: coefficients handed to the constructor must have been written")
        dtype = b.get("dtype")
        if dtype is None:
            from engine.polymodel import promoted_dtype
            dt = promoted_dtype(ex, V.as_seq(ex, Cin, node))      # common type of all coefficients handed in
        else:
            dt = as_dtype(ex, dtype, node)
        alloc = b.get("allocation")
        if alloc is not None:
            ex.oblige(f"pre({site}).allocation", z3.Or(alloc == E2.n, alloc >= 2 * E2.n), "precondition", node)
        if names2 is None:
            from engine.polymodel import names_distinct
            nm = default_names(E2.D)
            ctx.assume(nlen(nm) == E2.D)
            ctx.assume(names_distinct(ctx, nm))
        else:
            nm = names2.term
            ex.oblige(f"pre({site}).names_match_width", nlen(nm) == E2.D, "precondition", node)
        items = C2
        r = Poly(ctx, ctx.fresh("fa"), N=E2.n, D=E2.D, row=E2._row, C=lambda t, i: items.item(t).elem(i),
                 shape=c0.shape, dtype=dt, names=nm, region=Region("fresh", "from_attributes"))
        r.owndata = z3.BoolVal(True)
        r.c_contiguous = z3.BoolVal(True)
        ctx.assume(r.wf(ctx))
        # its rows are (column projections of) rows handed in, which were required to be storable above
        ctx.assume(ctx.forall_range(0, r.N, lambda t: keyok(r.row(t), r.D)))
        # abstract value: attributes taken from one polynomial denote that polynomial (B1)
        srcE, srcC = getattr(b.get("exponents"), "source", None), getattr(Cin, "source", None)
        if isinstance(srcE, Poly) and srcC is not None and srcC[0] is srcE:
            pnames = b.get("names")
            same_names = (isinstance(pnames, NamesV) and pnames.term is srcE.names) or (isinstance(pnames, Poly) and pnames.names is srcE.names)
            if same_names:
                ctx.assume(ctx.forall_idx(lambda i: r.val(i) == srcE.val(i), r.shape))
                r.denotes = srcE
        r.from_attrs = dict(E=E, C=Cin, E2=E2, C2=C2, names=b.get("names"), rc=b.get("retain_coefficients"),
                            rn=b.get("retain_names"), dtype=dtype, allocation=alloc)
        hook = getattr(ex, "hooks", {}).get("after_from_attributes")
        if hook:
            hook(ex, r)
        return r


class CleanAttributes(Contract):
    name = "numpoly.clean_attributes"
    relpath = "numpoly/construct/clean.py"
    func = "clean_attributes"
    properties = ("C03", "C15")
    positional = ("poly", "retain_coefficients", "retain_names")

    def cases(self):
        for flags in ("none", "sym"):
            def make_env(ex, fl=flags):
                ctx = ex.ctx
                for a in shape_axioms(ctx) + mono_axioms(ctx) + order_axioms(ctx):
                    ctx.assume(a)
                P = Poly(ctx, "poly", region=Region("caller", "poly"))
                ctx.assume(P.wf(ctx))
                ctx.assume(ctx.forall_range(0, P.N, lambda t: keyok(P.row(t), P.D)))
                for a in eok_axioms():
                    ctx.assume(a)
                ex.P = P
                rc = None if fl == "none" else z3.Bool("retain_coefficients_arg")
                rn = None if fl == "none" else z3.Bool("retain_names_arg")
                ex.flags = (rc, rn)
                return {"poly": P, "retain_coefficients": rc, "retain_names": rn}

            def check(out):
                ex, ctx = out.ex, out.ctx
                P = ex.P
                ex.oblige("raises.nothing" + (f"[{out.value}]" if out.kind == "raise" else ""), z3.BoolVal(out.kind == "return"), "post",
                          note="cleaning a well-formed polynomial cannot fail, whatever the options (C15)")
                if out.kind != "return":
                    return
                r = out.value
                ok = isinstance(r, Poly) and hasattr(r, "from_attrs")
                ex.oblige("post.result_of_from_attributes", z3.BoolVal(ok), "post")
                if not ok:
                    return
                fa = r.from_attrs
                ex.oblige("post.built_from_the_polynomial_own_attributes",
                          z3.BoolVal(getattr(fa["E"], "source", None) is P and getattr(fa["C"], "source", (None,))[0] is P
                                     and isinstance(fa["names"], NamesV) and fa["names"].term is P.names), "post")
                ex.oblige("post.flags_forwarded", z3.BoolVal(fa["rc"] is ex.flags[0] and fa["rn"] is ex.flags[1]), "post")
                ex.oblige("post.dtype_kept", r.dtype == P.dtype, "post")
                ex.oblige("post.shape_kept", r.shape == P.shape, "post")
                ex.oblige("post.denotes_the_same_polynomial", ctx.forall_idx(lambda i: r.val(i) == P.val(i), P.shape), "post",
                          note="never changes the polynomial denoted")
                ex.oblige("post.fresh", z3.BoolVal(r.region.owner == "fresh"), "post")
            yield Case(f"retain={flags}", make_env, check)

    def apply(self, ex, args, kw, node):
        P = args[0]
        if not isinstance(P, Poly):
            raise U("clean_attributes of non-ndpoly", node)
        b = dict(zip(self.positional, args))
        b.update(kw)
        ctx = ex.ctx
        site = ex.site("clean_attributes")
        ex.oblige(f"pre({site}).every_coefficient_defined", ctx.forall_range(0, P.N, lambda t: ctx.forall_idx(
            lambda i: P.init(t, i), P.shape)), "precondition", node,
            note="C12: a polynomial handed to cleaning must have every coefficient written")
        fa = PolynomialFromAttributes()
        E = P.sx_getattr(ex, "exponents", node)
        C = P.sx_getattr(ex, "coefficients", node)
        return fa.apply(ex, [], dict(exponents=E, coefficients=C, names=NamesV(P.names), dtype=DTypeV(P.dtype),
                                     retain_coefficients=b.get("retain_coefficients"), retain_names=b.get("retain_names")), node)


CONTRACTS = CONTRACTS + [PolynomialFromAttributes(), CleanAttributes()]
